"""C04 -- fast-packet reassembly is exact under interleaving, reordering, duplication and loss."""
import hashlib

from sim import bus, n2k
from .common import REAL_BUS, STUB_BUS, ASSUME_BUS, viol

ID = "C04"
ENGINE = "bussim"
LEVEL = "exploration"
RUNS = {"quick": 30000, "thorough": 1500000}
BUDGET_S = {"quick": 45, "thorough": 480}
BATCH = 400
RULE = ("one run = 1-5 concurrent (PGN, source, destination) streams chosen to collide on every pair of key components "
        "x 1-6 messages per stream (payload 1..223 bytes; 3-bit counter +1 per message, or any walk over 2-3 values in which consecutive messages differ) x per non-first frame: drop, "
        "1-3 copies, delay inside the message or stray into the next <=3 messages x a random interleaving of the streams "
        "x frame padding (none / FF / 00 / random) x the frame-level entry point (EByte, USB, Yacht Devices, plain). "
        "Every delivered frame is judged against a per-stream reference reassembler.  Non-trivial = at least two streams "
        "or one fault (drop/duplicate/reorder/stray) AND at least one message due.  Distinct = distinct sha256 of "
        "(history, results).")
REAL = REAL_BUS
STUB = STUB_BUS
ASSUMPTIONS = ASSUME_BUS + ["the property's own fault model: first frames arrive exactly once, before the other frames of their "
                            "message and in message order; a stray frame is delayed by fewer than 7 messages (beyond one wrap "
                            "of the 3-bit counter the protocol itself cannot tell messages apart)",
                            "payload observed through the binary data field of the proprietary fast-packet fallback "
                            "definitions (PGN 130816 / 126720); last payload byte non-zero so the length is attested"]
SHRINK_PATHS = [("events",)]

PGNS = [130816, 126720]


def gen(rng, idx, tier):
    nstreams = rng.choice([1, 2, 2, 3, 4, 5])
    base_src = rng.randrange(0, 250)
    base_dst = rng.randrange(0, 250)
    streams = []
    while len(streams) < nstreams:
        k = rng.random()
        if not streams:
            s = (rng.choice(PGNS), base_src, base_dst)
        elif k < 0.3:       # same PGN, other source
            p = rng.choice(streams)
            s = (p[0], (p[1] + rng.randrange(1, 5)) % 254, p[2])
        elif k < 0.6:       # same PGN and source, other destination (addressed PGN)
            p = rng.choice(streams)
            s = (126720, p[1], (p[2] + rng.randrange(1, 5)) % 254)
        elif k < 0.85:      # other PGN, same source
            p = rng.choice(streams)
            s = (130816 if p[0] == 126720 else 126720, p[1], p[2])
        else:
            s = (rng.choice(PGNS), rng.randrange(0, 254), rng.randrange(0, 254))
        if s[0] == 130816:
            s = (s[0], s[1], 255)
        if s not in streams:
            streams.append(s)
    faults = {f for f in ("drop", "dup", "reorder", "stray") if rng.random() < 0.6}
    pad_mode = rng.choice(["none", "ff", "00", "rand", "ff"])
    fmt = rng.choice(["ebyte", "usb", "yd", "plain"])
    messages = {}
    lanes = []
    mk = 0
    for si, s in enumerate(streams):
        nm = rng.randrange(1, 7)
        # sequence counters: the usual +1 mod 8, or any walk in which consecutive messages differ (all the standard
        # requires) over a small alphabet, so that a counter soon comes back (s, t, s, ...)
        if rng.random() < 0.6:
            seq0 = rng.randrange(8)
            counters = [(seq0 + k) % 8 for k in range(nm)]
        else:
            alpha = rng.sample(range(8), rng.choice([2, 2, 3]))
            counters = [rng.choice(alpha)]
            while len(counters) < nm:
                counters.append(rng.choice([a for a in alpha if a != counters[-1]]))
        lane = []
        for k in range(nm):
            L = rng.choice([1, 2, 5, 6, 7, 8, 12, 13, 14, 20, 21, 27, 34, 48, 100, 223]) if rng.random() < 0.7 else rng.randrange(2, 224)
            L = min(L, 223)
            body = bytes(rng.getrandbits(8) for _ in range(max(0, L - 2)))
            payload = (bytes([0xFF, 0x9F]) + body)[:L]
            if L == 1:
                payload = bytes([0xFF])
            if payload[-1] == 0:
                payload = payload[:-1] + b"\x01"
            seq = counters[k]
            frames = n2k.fast_frames(payload, seq, None)
            mid = "m%d" % mk
            mk += 1
            messages[mid] = {"stream": list(s), "seq": seq, "payload": payload.hex(), "n": len(frames)}
            lane.append((k, 0.0, mid, 0))
            # a frame of message k may arrive during a later message j only if no message in (k, j] carries k's counter:
            # otherwise the protocol itself cannot tell whose frame it is
            max_stray = 0
            while max_stray < 3 and k + max_stray + 1 < nm and counters[k + max_stray + 1] != seq:
                max_stray += 1
            for i in range(1, len(frames)):
                copies = 1
                if "drop" in faults and rng.random() < 0.12:
                    copies = 0
                elif "dup" in faults and rng.random() < 0.15:
                    copies = rng.choice([2, 2, 3])
                for c in range(copies):
                    stray = 0
                    if "stray" in faults and max_stray and rng.random() < 0.08:
                        stray = rng.randrange(1, max_stray + 1)
                    if "reorder" in faults and rng.random() < 0.5:
                        u = rng.random() * 0.98 + 0.01
                    else:
                        u = (i + c * 0.001) / (len(frames) + 1)
                    lane.append((k + stray, u if not stray else rng.random() * 0.98 + 0.01, mid, i))
        lane.sort(key=lambda e: (e[0], e[1]))
        lanes.append(lane)
    # random interleaving of the streams, preserving each stream's order
    events = []
    idxs = [0] * len(lanes)
    live = [i for i in range(len(lanes)) if lanes[i]]
    burst = rng.choice([1, 1, 2, 4])
    while live:
        li = rng.choice(live)
        for _ in range(rng.randrange(1, burst + 1)):
            if idxs[li] >= len(lanes[li]):
                break
            _, _, mid, i = lanes[li][idxs[li]]
            events.append({"m": mid, "i": i})
            idxs[li] += 1
        if idxs[li] >= len(lanes[li]):
            live.remove(li)
        if rng.random() < 0.05:
            events.append({"other": [127250, rng.randrange(254), 255, 2, bytes([rng.randrange(250), 0x10, 0x20, 0, 0, 0, 0, 0xFC]).hex()]})
    pads = {}
    if pad_mode == "rand":
        pads = {"seed": rng.getrandbits(32)}
    return {"format": fmt, "pad": pad_mode, "pads": pads, "messages": messages, "events": events,
            "faults": sorted(faults)}


def _pad_bytes(mode, seed, n, alt):
    if mode == "none":
        return None
    if mode == "ff":
        return bytes([0xFF if not alt else 0x00]) * n
    if mode == "00":
        return bytes([0x00 if not alt else 0xA5]) * n
    h = hashlib.sha256(("%s:%d" % (seed, alt)).encode()).digest()
    return (h * (n // 32 + 1))[:n]


def _frame_bytes(plan, mid, i, alt, evno, cache):
    m = plan["messages"][mid]
    fr = cache.get(mid)
    if fr is None:
        fr = cache[mid] = n2k.fast_frames(bytes.fromhex(m["payload"]), m["seq"], None)
    f = fr[i]
    if plan["pad"] != "none" and len(f) < 8:
        seed = "%s:%s:%d:%d" % (plan.get("pads", {}).get("seed", 0), mid, i, evno)
        f = f + _pad_bytes(plan["pad"], seed, 8 - len(f), alt)
    return f


def _run(plan, alt):
    from nmea2000.decoder import NMEA2000Decoder
    bus.with_clock(None)
    dec = NMEA2000Decoder()
    fmt = plan["format"]
    results = []
    cache = {}
    for evno, e in enumerate(plan["events"]):
        if "other" in e:
            bus.feed_frame(dec, fmt, e["other"])
            results.append(("other",))
            continue
        m = plan["messages"].get(e["m"])
        if m is None or e["i"] >= m["n"]:
            results.append(("skip",))
            continue
        pgn, src, dst = m["stream"]
        data = _frame_bytes(plan, e["m"], e["i"], alt, evno, cache)
        msg, exc = bus.feed_frame(dec, fmt, [pgn, src, dst, 3, data.hex()])
        if exc is not None:
            results.append(("exc", type(exc).__name__ + ": " + str(exc)))
        elif msg is None:
            results.append(("none",))
        else:
            results.append(("msg", msg.PGN, msg.source, msg.destination, msg.id, bus.observed_payload_int(msg)))
    return results


def execute(plan):
    res = _run(plan, 0)
    v = []
    st = {"format_" + plan["format"]: 1, "pad_" + plan["pad"]: 1}
    # reference reassembler, per stream
    cur = {}
    due_total = 0
    seen_first = set()
    arrived = {}        # message -> frame indices that have arrived so far (at any time after its first frame)
    returned = set()
    for evno, e in enumerate(plan["events"]):
        if "other" in e:
            continue
        m = plan["messages"].get(e["m"])
        if m is None or e["i"] >= m["n"]:
            continue
        key = tuple(m["stream"])
        i = e["i"]
        due = False
        if i == 0:
            if e["m"] in seen_first:
                # outside the fault model (first frames arrive once): can only appear through minimisation
                return {"violations": [], "digest": "invalid", "stats": {"invalid_plan": 1}, "nontrivial": False, "vtime": 0.0}
            seen_first.add(e["m"])
            if key in cur and not cur[key]["done"] and len(cur[key]["got"]) < cur[key]["n"]:
                st["restart_after_loss"] = st.get("restart_after_loss", 0) + 1
            cur[key] = {"m": e["m"], "got": {0}, "n": m["n"], "done": False}
            if m["n"] == 1:
                due = True
                cur[key]["done"] = True
        else:
            if e["m"] not in seen_first:
                return {"violations": [], "digest": "invalid", "stats": {"invalid_plan": 1}, "nontrivial": False, "vtime": 0.0}
            c = cur.get(key)
            if c is not None and c["m"] == e["m"] and not c["done"] and i not in c["got"]:
                c["got"].add(i)
                if len(c["got"]) == c["n"]:
                    due = True
                    c["done"] = True
            elif c is not None and c["m"] == e["m"] and c["done"]:
                st["duplicate_after_completion"] = st.get("duplicate_after_completion", 0) + 1
            elif c is not None and c["m"] == e["m"]:
                st["duplicate_before_completion"] = st.get("duplicate_before_completion", 0) + 1
            elif c is not None:
                st["stray_from_older_message"] = st.get("stray_from_older_message", 0) + 1
        r = res[evno]
        # A message whose last missing frame arrives only after a newer message has started on its stream: this tree
        # has given it up by then, a decoder that keeps one buffer per sequence counter completes it.  The statement
        # is satisfied either way, provided the payload is the one sent and it is returned at that frame, once.
        got_ = arrived.setdefault(e["m"], set())
        late_due = (not due) and i not in got_ and len(got_) == m["n"] - 1 and e["m"] not in returned and \
            not (cur.get(key) is not None and cur[key]["m"] == e["m"])
        got_.add(i)
        if late_due and r[0] == "msg":
            st["completed_after_newer_first_frame(returned)"] = st.get("completed_after_newer_first_frame(returned)", 0) + 1
            due = True
            due_total -= 1
        elif late_due:
            st["completed_after_newer_first_frame(given_up)"] = st.get("completed_after_newer_first_frame(given_up)", 0) + 1
        if due and r[0] == "msg":
            returned.add(e["m"])
        if due:
            due_total += 1
            want = int.from_bytes(bytes.fromhex(m["payload"]), "little")
            if r[0] != "msg":
                v.append(viol("C04.missing", evno, "frame %d of message %s (stream %s, counter %d, %d bytes) completes it, but the "
                              "decoder returned %s" % (i, e["m"], m["stream"], m["seq"], len(m["payload"]) // 2, r)))
            elif (r[1], r[2], r[3]) != tuple(m["stream"]):
                v.append(viol("C04.payload", evno, "message returned with addressing %s, sent on stream %s" % (r[1:4], m["stream"])))
            elif r[5] != want:
                chk = "C04.padding" if plan["pad"] != "none" and r[5] is not None and (r[5] & ((1 << (4 * len(m["payload"]))) - 1)) == want else "C04.payload"
                v.append(viol(chk, evno, "message %s (stream %s, %d bytes) returned with payload %s, sent %s (definition %s)" %
                              (e["m"], m["stream"], len(m["payload"]) // 2,
                               ("%x" % r[5]) if r[5] is not None else None, "%x" % want, r[4])))
        else:
            if r[0] == "msg":
                v.append(viol("C04.unsent", evno, "decoder returned a message (payload %s) at frame %d of %s although no message is "
                              "complete at this point (stream %s)" % (("%x" % r[5]) if r[5] is not None else None, i, e["m"], m["stream"])))
            elif r[0] == "exc":
                v.append(viol("C04.unsent", evno, "decoder raised %s at frame %d of %s" % (r[1], i, e["m"])))
        if len(v) >= 3:
            break
    if plan["pad"] != "none" and not v:
        res2 = _run(plan, 1)
        if res2 != res:
            evno = next(i for i, (a, b) in enumerate(zip(res, res2)) if a != b)
            v.append(viol("C04.padding", evno, "the same history with different padding bytes beyond the announced length gives a "
                          "different result at event %d: %s vs %s" % (evno, res[evno][:5], res2[evno][:5])))
    for f in plan.get("faults", []):
        st["fault_profile_" + f] = 1
    st["messages_due"] = due_total
    st["frames_delivered"] = len(plan["events"])
    nstreams = len({tuple(m["stream"]) for m in plan["messages"].values()})
    st["streams"] = nstreams
    h = hashlib.sha256(repr((plan["format"], plan["pad"], [(e.get("m"), e.get("i")) for e in plan["events"]],
                             sorted((k, m["payload"], m["seq"], tuple(m["stream"])) for k, m in plan["messages"].items()), res)).encode()).hexdigest()
    nontrivial = due_total > 0 and (nstreams > 1 or bool(plan.get("faults")))
    return {"violations": v, "digest": h, "stats": st, "nontrivial": nontrivial, "vtime": 0.0}


def describe(plan):
    return {"format": plan["format"], "padding": plan["pad"], "fault_profile": plan.get("faults"),
            "messages": {k: {"stream": m["stream"], "counter": m["seq"], "bytes": len(m["payload"]) // 2, "frames": m["n"]}
                         for k, m in list(plan["messages"].items())[:8]},
            "history": ["%s.%d" % (e["m"], e["i"]) if "m" in e else "other" for e in plan["events"][:60]]}
