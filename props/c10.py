"""C10 -- PGN include/exclude filters are a pure selection of the unfiltered output."""
import hashlib

from sim import bus, bustraffic, msgs, catalog
from .common import REAL_BUS, STUB_BUS, ASSUME_BUS, viol

ID = "C10"
ENGINE = "bussim"
LEVEL = "exploration"
RUNS = {"quick": 30000, "thorough": 1500000}
BUDGET_S = {"quick": 45, "thorough": 480}
BATCH = 200
RULE = ("one run = one bus history (several sources; single-frame, fast-packet incl. incomplete and interleaved, address "
        "claims, unknown PGNs) delivered at once to an unfiltered listener and 3-6 filtered listeners whose "
        "configurations come from a generator: exclude-only or include-only; entries as numbers, as ids in random letter "
        "case, mixed; with/without the claim PGN; duplicates; ids of multi-definition PGNs; network mapping on/off.  "
        "Position-wise oracle: filtered result == unfiltered result if permitted else nothing (source identity "
        "included, so a filtered-out claim that failed to update the source map shows on the next message).  "
        "Non-trivial = at least one message permitted and one suppressed in some listener.  Distinct = sha256 of "
        "(history, configurations, results).")
REAL = REAL_BUS
STUB = STUB_BUS
ASSUMPTIONS = ASSUME_BUS + ["permitted(m) = not excluded by number or by id (case-insensitive) and, when an include list is "
                            "given, listed by number or by id (case-insensitive); an exception of the unfiltered decoder "
                            "counts as 'nothing returned'"]
SHRINK_PATHS = [("events",), ("listeners",), ("listeners", "*", "exclude_pgns"), ("listeners", "*", "include_pgns")]

IDS = None


def prime():
    global IDS
    catalog.load()
    IDS = {}
    for d in catalog.DEFS:
        if "fast" in d:
            IDS.setdefault(d["pgn"], []).append(d["id"])


def _case(rng, s):
    k = rng.random()
    if k < 0.4:
        return s
    if k < 0.6:
        return s.lower()
    if k < 0.8:
        return s.upper()
    return "".join(c.upper() if rng.random() < 0.5 else c.lower() for c in s)


def gen_filter(rng, pgns_in_history):
    pool = list(pgns_in_history) or [127250]
    n = rng.choice([0, 1, 1, 2, 3, 5])
    entries = []
    for _ in range(n):
        pgn = rng.choice(pool) if rng.random() < 0.85 else rng.choice([127250, 129029, 65280, 130816, 126996])
        k = rng.random()
        if k < 0.45 or pgn not in IDS:
            entries.append(pgn)
        else:
            entries.append(_case(rng, rng.choice(IDS[pgn])))
    if rng.random() < 0.35:
        entries.append(60928 if rng.random() < 0.5 else _case(rng, "isoAddressClaim"))
    if entries and rng.random() < 0.15:
        entries.append(rng.choice(entries))
    rng.shuffle(entries)
    mode = rng.choice(["exclude_pgns", "include_pgns"])
    cfg = {mode: entries}
    if rng.random() < 0.1:
        cfg = {"exclude_pgns": [], "include_pgns": []}
    return cfg


def gen_aging(rng):
    """A long run of traffic that a listener drops by number, between a message that lost its tail and the next message
    of that stream: whatever the decoder does about stale partial messages (age them out, count frames, look at the
    clock) must go on behind the filter exactly as in front of it."""
    from sim import n2k, catalog
    catalog.load()
    A, B = rng.sample([129029, 126996, 129540, 129038, 127489, 128275], 2)
    s = rng.randrange(1, 200)
    c = rng.randrange(8)
    fa = [f for f in catalog.fixpoints() if f["fast"] and f["pgn"] == A] or [f for f in catalog.fixpoints() if f["fast"]]
    A = fa[0]["pgn"]
    p1, p2 = bytes.fromhex(rng.choice(fa)["payload"]), bytes.fromhex(rng.choice(fa)["payload"])
    ev = []
    m = 0
    fr1 = n2k.fast_frames(p1, c, 0xFF)
    keep = rng.randrange(1, len(fr1)) if len(fr1) > 1 else 1
    for i, f in enumerate(fr1[:keep]):
        ev.append({"f": [A, s, 255, 3, f.hex()], "k": "fast", "m": m, "i": i, "n": len(fr1)})
    n_fill = rng.choice([60, 150, 210, 260, 400])
    k = 0
    while k < n_fill:
        m += 1
        src = 200 + (m % 40)
        frs = n2k.fast_frames(bytes(rng.getrandbits(8) for _ in range(rng.choice([20, 43, 90]))), m % 8, 0xFF)
        cut = len(frs) if rng.random() < 0.7 else rng.randrange(1, len(frs) + 1)
        for i, f in enumerate(frs[:cut]):
            ev.append({"f": [B, src, 255, 6, f.hex()], "k": "fast", "m": m, "i": i, "n": len(frs)})
            k += 1
    m += 1
    c2 = c if rng.random() < 0.7 else (c + 1) % 8
    fr2 = n2k.fast_frames(p2, c2, 0xFF)
    for i, f in enumerate(fr2):
        ev.append({"f": [A, s, 255, 3, f.hex()], "k": "fast", "m": m, "i": i, "n": len(fr2)})
    t = 0.0
    dt = rng.choice([0.001, 0.01, 0.5, 3.0])
    for e in ev:
        t += dt
        e["at"] = round(t, 3)
    listeners = [{"exclude_pgns": [B]}, {"include_pgns": [A, 60928]}, {"include_pgns": [A]},
                 {"exclude_pgns": [B, _case(rng, "isoAddressClaim")]}, {"exclude_pgns": [_case(rng, rng.choice(IDS[B]))] if B in IDS else [B]}]
    return {"format": rng.choice(["ebyte", "usb", "yd", "plain"]), "build_network_map": False, "events": ev,
            "listeners": listeners, "share": {}, "aging": n_fill}


def gen(rng, idx, tier):
    if rng.random() < 0.04:
        return gen_aging(rng)
    ev = bustraffic.history(rng, multi_def_bias=True, shared_names=rng.random() < 0.4)
    pgns = sorted({e["f"][0] for e in ev})
    fmt = rng.choice(["ebyte", "usb", "yd", "plain"])
    bnm = rng.random() < 0.3
    listeners = [gen_filter(rng, pgns) for _ in range(rng.randrange(3, 7))]
    # some listeners are built from the *same* configuration object (one application config, several decoders)
    share = {}
    if rng.random() < 0.4:
        j = rng.randrange(len(listeners))
        listeners.append(dict(listeners[j]))
        share[str(len(listeners) - 1)] = j
        if rng.random() < 0.5:
            listeners[j] = {"exclude_pgns": [60928] + [p for p in rng.sample(pgns, min(len(pgns), 2)) if p != 60928]}
            listeners[-1] = dict(listeners[j])
    # wall clock: mostly a dense history, sometimes with long silences (minutes) between bursts
    t = rng.choice([0.0, 0.0, 30.0, 590.0, 700.0])
    pace = rng.choice(["dense", "dense", "gappy", "slow"])
    for e in ev:
        if pace == "slow":
            t += rng.uniform(40.0, 200.0)         # a quiet bus: minutes pass between the messages of one source
        elif pace == "gappy" and rng.random() < 0.15:
            t += rng.choice([100.0, 301.0, 400.0, 900.0])
        else:
            t += rng.uniform(0.0, 0.2)
        e["at"] = round(t, 3)
    return {"format": fmt, "build_network_map": bnm, "events": ev, "listeners": listeners, "share": share}


def permitted(m, cfg):
    ex = cfg.get("exclude_pgns") or []
    inc = cfg.get("include_pgns") or []
    mid = m.id.lower()
    for e in ex:
        if (isinstance(e, int) and e == m.PGN) or (isinstance(e, str) and e.lower() == mid):
            return False
    if inc:
        for e in inc:
            if (isinstance(e, int) and e == m.PGN) or (isinstance(e, str) and e.lower() == mid):
                return True
        return False
    return True


def execute(plan):
    from nmea2000.decoder import NMEA2000Decoder
    vc = bus.VClock(0.0)
    bus.with_clock(vc)
    fmt = plan["format"]
    bnm = bool(plan.get("build_network_map"))
    v = []
    try:
        un = NMEA2000Decoder(build_network_map=bnm)
        share = plan.get("share") or {}
        objs = []
        ls = []
        for li, cfg in enumerate(plan["listeners"]):
            j = share.get(str(li))
            if j is not None and j < len(objs) and plan["listeners"][j] == cfg:
                kw = objs[j]                 # the very same list objects as listener j
            else:
                kw = {k: list(x) for k, x in cfg.items()}
            objs.append(kw)
            ls.append(NMEA2000Decoder(build_network_map=bnm, **kw))
    except ValueError:
        return {"violations": [], "digest": "invalid", "stats": {"invalid_plan": 1}, "nontrivial": False, "vtime": 0.0}
    st = {"frames": 0, "permitted": 0, "suppressed": 0, "claims_suppressed": 0}
    if plan.get("aging"):
        st["long_filtered_run_between_messages"] = 1
    log = []
    for evno, e in enumerate(plan["events"]):
        st["frames"] += 1
        vc.t = e.get("at", vc.t)
        stamp = bus.stamp_for(vc.t)
        u, _ = bus.feed_frame(un, fmt, e["f"], stamp)
        uk = msgs.key(u)
        log.append(uk[:5] if uk else None)
        for li, (d, cfg) in enumerate(zip(ls, plan["listeners"])):
            f, exc = bus.feed_frame(d, fmt, e["f"], stamp)
            fk = msgs.key(f)
            if u is not None and permitted(u, cfg):
                st["permitted"] += 1
                if fk is None:
                    v.append(viol("C10.missing", evno, "listener %d %s suppressed %d/%s from source %d, which its configuration "
                                  "permits%s" % (li, cfg, u.PGN, u.id, u.source, (" (raised %r)" % exc) if exc else "")))
                elif fk != uk:
                    v.append(viol("C10.content", evno, "listener %d %s returned %d/%s with different content: %s" %
                                  (li, cfg, u.PGN, u.id, msgs.diff(fk, uk))))
            else:
                if u is not None:
                    st["suppressed"] += 1
                    if u.PGN == 60928:
                        st["claims_suppressed"] += 1
                if fk is not None:
                    v.append(viol("C10.extra", evno, "listener %d %s returned %d/%s from source %d which %s" %
                                  (li, cfg, f.PGN, f.id, f.source, "its configuration does not permit" if u is not None else
                                   "the unfiltered decoder does not return at this position")))
            if v:
                break
        if v:
            break
    h = hashlib.sha256(repr((fmt, bnm, plan["listeners"], [e["f"] for e in plan["events"]], log)).encode()).hexdigest()
    return {"violations": v, "digest": h, "stats": st, "nontrivial": st["permitted"] > 0 and st["suppressed"] > 0, "vtime": 0.0}


def describe(plan):
    return {"format": plan["format"], "build_network_map": plan.get("build_network_map"), "listeners": plan["listeners"],
            "history": [e["f"][:4] + [e["k"]] for e in plan["events"][:25]]}


def seam_check():
    from .common import seam_net, seam_clock, seam_fs
    return seam_clock()
