"""C15 -- JSON round-trips to an equivalent, re-encodable message; dump is faithful."""
import datetime
import hashlib
import json
import math

from sim import bus, bustraffic, fs as simfs, catalog
from . import c10
from .common import REAL_BUS, STUB_BUS, ASSUME_BUS, viol

ID = "C15"
ENGINE = "bussim"
LEVEL = "exploration"
RUNS = {"quick": 30000, "thorough": 1500000}
BUDGET_S = {"quick": 45, "thorough": 480}
BATCH = 200
RULE = ("one run = one bus history (several sources, traffic drawn from all 418 definitions with boundary-biased random "
        "payloads, with and without source identity) delivered to 2-4 listeners constructed with dump_to_file on an "
        "in-memory file system, a dump filter from a generator (empty, numbers, ids in database letter case, mixed, ids of "
        "multi-definition PGNs) and PGN filters.  After close()/context exit the file must hold exactly the JSON of the "
        "returned messages that match the dump filter, one per line, in order.  Every returned message is also put "
        "through the JSON monitor (valid JSON, from_json equivalence, re-encoding).  Non-trivial = at least one message "
        "dumped and one returned-but-not-dumped or filtered.  Distinct = sha256 of (history, configurations, file).")
REAL = REAL_BUS + ["NMEA2000Message.to_json / from_json (orjson)", "NMEA2000Encoder (re-encoding of parsed messages)"]
STUB = STUB_BUS
ASSUMPTIONS = ASSUME_BUS + ["dump-filter ids are offered in database letter case only (the statement does not say the dump "
                            "filter is case-insensitive; either reading then passes)",
                            "no write faults are injected into the dump file: the statement is silent about them",
                            "the JSON half is a per-message monitor over sampled payloads (a pure function of the message); "
                            "it rides on the dump runs and is reported separately in the counters"]
SHRINK_PATHS = [("events",), ("listeners",)]

IDS = None


def prime():
    global IDS
    catalog.load()
    IDS = {}
    for d in catalog.DEFS:
        if "fast" in d:
            IDS.setdefault(d["pgn"], []).append(d["id"])


def gen(rng, idx, tier):
    ev = bustraffic.history(rng, all_defs=True, multi_def_bias=True, claims=True)
    pgns = sorted({e["f"][0] for e in ev})
    listeners = []
    for li in range(rng.randrange(2, 5)):
        n = rng.choice([0, 1, 2, 4])
        dump = []
        for _ in range(n):
            p = rng.choice(pgns)
            if rng.random() < 0.5 or p not in IDS:
                dump.append(p)
            else:
                dump.append(rng.choice(IDS[p]))
        cfg = {"dump_pgns": dump, "build_network_map": rng.random() < 0.2}
        if rng.random() < 0.3:
            cfg["preferred_units"] = rng.choice([{"TEMPERATURE": "C"}, {"ANGLE": "deg", "SPEED": "kts"}, {"PRESSURE": "psi", "TEMPERATURE": "F"}])
        k = rng.random()
        if k < 0.25:
            cfg["exclude_pgns"] = rng.sample(pgns, min(len(pgns), rng.randrange(1, 3)))
        elif k < 0.35:
            cfg["include_pgns"] = rng.sample(pgns, min(len(pgns), rng.randrange(1, 4)))
        path = rng.choice(["dump%d.jsonl" % li, "out/d%d/dump.jsonl" % li, "dumps/x%d.jsonl" % li])
        listeners.append({"cfg": cfg, "path": path, "ctx": rng.random() < 0.5})
    return {"format": rng.choice(["ebyte", "usb", "yd", "plain"]), "events": ev, "listeners": listeners}


def dump_filter(m, dump):
    if not dump:
        return True
    for e in dump:
        if (isinstance(e, int) and e == m.PGN) or (isinstance(e, str) and e == m.id):
            return True
    return False


def _same(v, p):
    """Is p the stated JSON rendering of the Python value v?"""
    if isinstance(v, (bytes, bytearray)):
        return p == bytes(v).hex()
    if isinstance(v, (datetime.date, datetime.time, datetime.datetime)):
        return p == v.isoformat()
    if isinstance(v, float):
        if not math.isfinite(v):
            return p is None
        return isinstance(p, (int, float)) and float(p) == v
    if isinstance(v, bool) or v is None or isinstance(v, (int, str)):
        return p == v and (type(p) is type(v) or (isinstance(v, int) and isinstance(p, int)))
    return False


def json_monitor(m, enc, evno, v, st):
    from nmea2000.message import NMEA2000Message
    st["json_messages_checked"] = st.get("json_messages_checked", 0) + 1
    try:
        text = m.to_json()
    except Exception as e:
        v.append(viol("C15.json.valid", evno, "to_json() of %d/%s raised %r" % (m.PGN, m.id, e)))
        return None
    try:
        d = json.loads(text, parse_constant=lambda c: (_ for _ in ()).throw(ValueError("non-standard constant " + c)))
    except Exception as e:
        v.append(viol("C15.json.valid", evno, "to_json() of %d/%s is not valid JSON: %r" % (m.PGN, m.id, e)))
        return text
    if "\n" in text:
        v.append(viol("C15.json.valid", evno, "JSON text of %d/%s contains a line break" % (m.PGN, m.id)))
    try:
        p = NMEA2000Message.from_json(text)
    except Exception as e:
        v.append(viol("C15.json.fields", evno, "from_json() of the JSON of %d/%s raised %r" % (m.PGN, m.id, e)))
        return text
    if (p.PGN, p.id, p.source, p.destination, p.priority) != (m.PGN, m.id, m.source, m.destination, m.priority):
        v.append(viol("C15.json.fields", evno, "parsed message has PGN/id/addressing %s, original %s" %
                      ((p.PGN, p.id, p.source, p.destination, p.priority), (m.PGN, m.id, m.source, m.destination, m.priority))))
        return text
    if len(p.fields) != len(m.fields):
        v.append(viol("C15.json.fields", evno, "%d/%s: parsed message has %d fields, original %d" % (m.PGN, m.id, len(p.fields), len(m.fields))))
        return text
    for fo, fp in zip(m.fields, p.fields):
        if fo.id != fp.id or not _same(fo.value, fp.value) or not _same(fo.raw_value, fp.raw_value):
            v.append(viol("C15.json.fields", evno, "%d/%s field %s: value %r raw %r parsed back as id %s value %r raw %r" %
                          (m.PGN, m.id, fo.id, fo.value, fo.raw_value, fp.id, fp.value, fp.raw_value)))
            return text
    try:
        a = enc.encode_actisense(m)
    except Exception:
        return text
    st["json_reencoded"] = st.get("json_reencoded", 0) + 1
    try:
        b = enc.encode_actisense(p)
    except Exception as e:
        v.append(viol("C15.json.reencode", evno, "%d/%s encodes, but the message parsed from its JSON does not: %r" % (m.PGN, m.id, e)))
        return text
    if a != b:
        v.append(viol("C15.json.reencode", evno, "%d/%s encodes to %s, the message parsed from its JSON to %s" % (m.PGN, m.id, a, b)))
    return text


def execute(plan):
    from nmea2000.decoder import NMEA2000Decoder
    from nmea2000.encoder import NMEA2000Encoder
    bus.with_clock(None)
    fmt = plan["format"]
    v = []
    st = {"frames": 0, "dumped": 0, "returned_not_dumped": 0, "listeners": len(plan["listeners"])}
    fsys = simfs.FakeFS()
    enc = NMEA2000Encoder()
    expected = []
    log = []
    with simfs.installed(fsys):
        ls = []
        for l in plan["listeners"]:
            try:
                from .common import decoder_kwargs
                d = NMEA2000Decoder(dump_to_file=l["path"], **decoder_kwargs({k: (list(x) if isinstance(x, list) else x) for k, x in l["cfg"].items()}))
            except ValueError:
                return {"violations": [], "digest": "invalid", "stats": {"invalid_plan": 1}, "nontrivial": False, "vtime": 0.0}
            if l.get("ctx"):
                d.__enter__()
            ls.append(d)
            expected.append([])
        seen_json = set()
        for evno, e in enumerate(plan["events"]):
            st["frames"] += 1
            for li, d in enumerate(ls):
                m, exc = bus.feed_frame(d, fmt, e["f"])
                if m is None:
                    continue
                k = (li == 0) or (id(m) not in seen_json)
                text = None
                if li == 0 or plan["listeners"][li]["cfg"].get("build_network_map") or plan["listeners"][li]["cfg"].get("exclude_pgns") \
                        or plan["listeners"][li]["cfg"].get("preferred_units"):
                    text = json_monitor(m, enc, evno, v, st)
                if text is None:
                    try:
                        text = m.to_json()
                    except Exception:
                        text = None
                if dump_filter(m, plan["listeners"][li]["cfg"].get("dump_pgns") or []):
                    expected[li].append(text)
                    st["dumped"] += 1
                else:
                    st["returned_not_dumped"] += 1
            if v:
                break
        for l, d in zip(plan["listeners"], ls):
            if l.get("ctx"):
                d.__exit__(None, None, None)
            else:
                d.close()
    if not v:
        # two listeners may share a path: compare per path
        by_path = {}
        for l, exp in zip(plan["listeners"], expected):
            by_path.setdefault(l["path"], []).append(exp)
        for path, exps in by_path.items():
            content = fsys.content(path)
            lines = content.split("\n")
            if len(exps) > 1:
                continue        # shared file: interleaving order is not specified
            exp = exps[0]
            if None in exp:
                continue
            want = "".join(t + "\n" for t in exp)
            if content != want:
                got_lines = lines[:-1] if (content.endswith("\n") or content == "") else lines
                n = 0
                while n < len(got_lines) and n < len(exp) and got_lines[n] == exp[n]:
                    n += 1
                v.append(viol("C15.dump.lines", len(plan["events"]), "dump file %s (filter %s) holds %d line(s), expected %d; first "
                              "difference at line %d: got %s, expected %s" %
                              (path, [l["cfg"].get("dump_pgns") for l in plan["listeners"] if l["path"] == path][0], len(got_lines), len(exp), n,
                               (got_lines[n][:80] if n < len(got_lines) else None), (exp[n][:80] if n < len(exp) else None))))
        for h in fsys.handles:
            if not h.closed:
                v.append(viol("C15.dump.handle", len(plan["events"]), "dump file %s still open after close()/context exit" % h.path))
                break
    log = [(p, hashlib.sha256(fsys.content(p).encode()).hexdigest()[:12]) for p in sorted(fsys.files)]
    h = hashlib.sha256(repr((fmt, [(l["cfg"], l["path"]) for l in plan["listeners"]], [e["f"] for e in plan["events"]], log)).encode()).hexdigest()
    return {"violations": v, "digest": h, "stats": st, "nontrivial": st["dumped"] > 0 and st["returned_not_dumped"] > 0, "vtime": 0.0}


def describe(plan):
    return {"format": plan["format"], "listeners": plan["listeners"], "history": [e["f"][:4] + [e["k"]] for e in plan["events"][:25]]}


def seam_check():
    from .common import seam_net, seam_clock, seam_fs
    return seam_fs()
