"""C12 -- gateway clients deliver every decodable frame once, in order, for any chunking."""
from sim import net, traffic, msgs
from .common import (CLIENTS, REAL_NET, STUB_NET, ASSUME_NET, gen_config, reference_decode, viol)

ID = "C12"
ENGINE = "netsim"
LEVEL = "exploration"
RUNS = {"quick": 24000, "thorough": 800000}
BUDGET_S = {"quick": 40, "thorough": 420}
BATCH = 50
RULE = ("one run = one seeded plan: client type x decoder settings x a stream of valid/malformed/unknown packets "
        "(<=120) x a segmentation into reads (1 byte .. everything at once, cuts aimed inside headers, CR|LF, AA|55) "
        "x inter-chunk gaps x receive-callback failures and delays.  Non-trivial = at least one message was "
        "delivered AND (a packet was split across reads OR several packets arrived in one read OR a callback "
        "failed/was slow).  Distinct = distinct sha256 of the full event trace (virtual timestamps included).")
REAL = REAL_NET
STUB = STUB_NET
ASSUMPTIONS = ASSUME_NET + ["EByte streams are packet-aligned (the 13-byte framing has no resynchronisation); the in-band "
                            "'Sorry,Limited' sentinel, lines longer than the 64 KiB StreamReader limit and end of "
                            "stream are excluded here (C13 covers faults)"]
SHRINK_PATHS = [("script", "*", "stream"), ("script", "*", "chunks"), ("script", "*", "gaps")]


def prime():
    from sim import catalog
    catalog.load()


def gen(rng, idx, tier):
    kind = CLIENTS[idx % 4] if rng.random() < 0.8 else rng.choice(CLIENTS)
    cfg = gen_config(rng)
    backlog = rng.random() < 0.06
    if backlog:
        # a long run of decodable packets arriving faster than the callback consumes them (deep receive queue)
        n = rng.choice([150, 250, 400])
        segs = [("pkt", traffic.tagged_packet(kind, i % 250, src=1 + (i // 250))) for i in range(n)]
        cfg = {}
    else:
        n = rng.choice([3, 8, 15, 30, 60]) if rng.random() < 0.85 else rng.randrange(60, 121)
        segs = traffic.wire_stream(rng, kind, n)
        segs = segs[:120]
    packets = [p for _, p in segs]
    chunks, mode = traffic.cuts_for(rng, packets, kind)
    gapmode = rng.random()
    if gapmode < 0.3:
        gaps = [0.0]
    elif gapmode < 0.6:
        gaps = [1e-5]
    else:
        gaps = [rng.choice([0.0, 1e-6, 1e-5, 1e-4, 1e-3, 0.01, rng.uniform(0, 0.2)]) for _ in range(rng.randrange(2, 12))]
    cb = {"raise": [], "delay": {}}
    if rng.random() < 0.5:
        p = rng.choice([0.05, 0.2, 0.5])
        cb["raise"] = [i for i in range(130) if rng.random() < p]
    if rng.random() < 0.5:
        p = rng.choice([0.05, 0.2])
        for i in range(130):
            if rng.random() < p:
                cb["delay"][str(i)] = rng.choice([0.001, 0.01, 0.1, 0.5, 2.0])
    if backlog:
        if rng.random() < 0.5:
            chunks, mode = [4096] * 10, "burst"
            gaps = [0.0]
        if rng.random() < 0.7:
            cb["delay"]["0"] = rng.choice([1.0, 5.0])          # the consumer is stuck in the first callback
    entry = {"a": "accept", "lat": rng.choice([0.0, 0.001, 0.05]), "stream": [[k, p.hex()] for k, p in segs],
             "chunks": chunks, "gaps": gaps, "start": rng.choice([0.0, 0.001, 0.02])}
    total_delay = sum(cb["delay"].values())
    return {"client": kind, "config": cfg, "script": [entry], "ops": [{"at": 0.0, "op": "connect", "id": 0}],
            "cb": {"recv": cb}, "knobs": {"min_end": 1.0, "tail": 5.0 + total_delay, "max_end": 900.0},
            "mode": mode}


def execute(plan):
    o = net.run(plan)
    kind = plan["client"]
    v = []
    entry = plan["script"][0] if plan.get("script") else {"stream": []}
    packets = [bytes.fromhex(s[1]) for s in entry.get("stream") or []]
    ref = reference_decode(kind, packets, plan.get("config") or {})
    want = [msgs.key(m, raw=True) for m in ref]
    got = [msgs.key(r[3], raw=True) for r in o.recv]
    if o.crashed:
        v.append(viol("C12.quiesce." + kind, len(o.trace), "run ended abnormally: %s" % o.crashed))
    if o.stalls:
        v.append(viol("C12.quiesce." + kind, len(o.trace), "receive path performed >50000 reads in one loop iteration: %r" % (o.stalls[0],)))
    if got != want:
        n = 0
        while n < len(got) and n < len(want) and got[n] == want[n]:
            n += 1
        ev = o.recv[n][0] if n < len(o.recv) else len(o.trace)
        if n == len(got) and len(got) < len(want):
            v.append(viol("C12.sequence." + kind, ev,
                          "delivery stopped after %d of %d expected messages (next expected: %s)" %
                          (len(got), len(want), want[n][:5])))
        elif n == len(want):
            v.append(viol("C12.sequence." + kind, ev, "%d extra message(s) delivered after the %d expected; first extra: %s" %
                          (len(got) - len(want), len(want), got[n][:5])))
        else:
            v.append(viol("C12.sequence." + kind, ev, "message #%d differs from the synchronous decode: %s" %
                          (n, msgs.diff(got[n], want[n]))))
    st = dict(o.fired)
    chunks = entry.get("chunks") or []
    for k, c in traffic.cut_probes(packets, chunks, kind).items():
        st[k] = c
    st["messages_delivered"] = len(got)
    st["packets_sent"] = len(packets)
    st["client_" + kind] = 1
    st["seg_mode_" + str(plan.get("mode"))] = 1
    multi = len(chunks) < len(packets)
    nontrivial = bool(got) and (st.get("packet_split_across_reads", 0) > 0 or multi or
                                st.get("recv_cb_raise", 0) > 0 or st.get("recv_cb_slow", 0) > 0)
    return {"violations": v, "digest": o.digest, "stats": st, "nontrivial": nontrivial, "vtime": o.end_vt}


def simplify(plan):
    if plan.get("config"):
        p = dict(plan)
        p["config"] = {}
        yield p
    cb = (plan.get("cb") or {}).get("recv") or {}
    if cb.get("raise") or cb.get("delay"):
        p = dict(plan)
        p["cb"] = {"recv": {"raise": [], "delay": {}}}
        yield p
        if cb.get("delay"):
            p = dict(plan)
            p["cb"] = {"recv": {"raise": cb.get("raise") or [], "delay": {}}}
            yield p
    e = plan["script"][0]
    if e.get("chunks"):
        p = dict(plan)
        e2 = dict(e)
        e2["chunks"] = []
        p["script"] = [e2]
        yield p


def describe(plan):
    e = plan["script"][0]
    return {"client": plan["client"], "config": plan.get("config"), "segmentation_mode": plan.get("mode"),
            "packets": len(e.get("stream") or []), "first_packets": [s for s in (e.get("stream") or [])[:4]],
            "chunk_sizes": (e.get("chunks") or [])[:20], "gaps": (e.get("gaps") or [])[:6],
            "recv_callback": {"raise_at": ((plan.get("cb") or {}).get("recv") or {}).get("raise", [])[:10],
                              "delays": dict(list((((plan.get("cb") or {}).get("recv") or {}).get("delay") or {}).items())[:6])}}


def seam_check():
    from .common import seam_net, seam_clock, seam_fs
    return seam_net()
