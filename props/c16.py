"""C16 -- decoder instances are isolated and unharmed by bad input."""
import copy
import hashlib
import json
import os
import pickle

from sim import bus, bustraffic, msgs, n2k, traffic, catalog
from .common import REAL_BUS, STUB_BUS, ASSUME_BUS, viol

ID = "C16"
ENGINE = "bussim"
LEVEL = "exploration"
RUNS = {"quick": 2500, "thorough": 60000}
BUDGET_S = {"quick": 45, "thorough": 480}
BATCH = 50
RULE = ("one run = a seeded history of <=60 operations over 2-5 decoders and 1-3 encoders alive at once: create "
        "(configurations share the same list/dict objects; some use the constructor defaults), feed decoder i a valid "
        "frame / one frame of a fast-packet message (messages deliberately split across decoders) / junk (0-2 data bytes, "
        "unknown PGN, out-of-range payload, malformed text line, bad checksum), encode with encoder j, probe.  Oracles: "
        "I1 every decoder's results equal a solo replay of its own inputs in a separate forked process with pristine "
        "module state; I2 results at non-junk positions equal the history with junk removed; I3 single-frame and "
        "fresh-counter fast-packet probes decode as on a fresh decoder; I4 configuration objects unchanged, encoder "
        "counters follow only their own encodes; I5 the history run twice gives identical results.  Non-trivial = >= 2 "
        "decoders fed, >= 1 junk input and >= 1 message returned.  Distinct = sha256 of (history, results).")
REAL = REAL_BUS
STUB = STUB_BUS + ["process isolation by fork(): the interleaved run, each solo replay and the junk-free run execute in "
                   "separate children of a process that never ran decoder code itself"]
ASSUMPTIONS = ASSUME_BUS + ["pristine module state = the state of the worker process, which imports the library but executes "
                            "no decode/encode itself (all executions happen in forked children)"]
SHRINK_PATHS = [("ops",)]

CFGS = {
    "default": {},
    "excl": {"exclude_pgns": "@L1"},
    "incl": {"include_pgns": "@L2"},
    "units": {"preferred_units": "@D1"},
    "map": {"build_network_map": True, "exclude_manufacturer_code": "@L3"},
    "mfg": {"include_manufacturer_code": "@L4"},
    "exclclaim": {"exclude_pgns": "@L5"},
    "dump": {"dump_to_file": "dumps/shared.jsonl"},
    "dump2": {"dump_to_file": "dumps/shared.jsonl", "dump_pgns": "@L2"},
}
SHARED = {"@L5": [60928, 130306, 127258], "@L1": [129029, "vesselHeading"], "@L2": [127250, 129029, 130816, 126720, 60928, 127257, 130306],
          "@L3": ["Furuno"], "@L4": ["Garmin", "Navico", "Maretron", "Airmar", "Raymarine", "Victron Energy", "B & G", "Furuno"],
          "@D1": {"TEMPERATURE": "c", "ANGLE": "deg", "SPEED": "kts", "PRESSURE": "bar"}}

GNSS_LINE = ("2022-09-28-11:36:59.668,3,129029,0,255,47,e7,95,3d,00,73,d6,29,00,da,04,73,db,c9,e5,05,80,7d,02,28,5f,d6,10,f6,9b,50,"
             "6c,05,00,00,00,00,13,fc,08,6f,00,be,00,dd,f2,ff,ff,00,ff,ff,ff,ff")


_nomatch = []


def prime():
    global _send
    catalog.load()
    # multi-definition PGNs without a catch-all definition: a frame whose match fields fit no definition is ignored
    del _nomatch[:]
    for pgn, defs in sorted(catalog.BY_PGN.items()):
        if len(defs) > 1 and all(d["match"] for d in defs) and not any(d["fallback"] for d in defs) and "fast" in defs[0]:
            _nomatch.append(pgn)
    # NOTE: no decoder/encoder code may run in this process (see ASSUMPTIONS); fix-points are not needed here.


def gen(rng, idx, tier):
    nd = rng.randrange(2, 6)
    ne = rng.randrange(1, 4)
    fmts = [rng.choice(["ebyte", "usb", "yd", "plain"]) for _ in range(nd)]
    cfgs = [rng.choice(list(CFGS)) for _ in range(nd)]
    ops = []
    for i in range(nd):
        ops.append({"op": "create_dec", "d": i, "cfg": cfgs[i], "fmt": fmts[i]})
    for j in range(ne):
        ops.append({"op": "create_enc", "e": j})
    hist = bustraffic.history(rng, n_items=rng.choice([5, 10, 20]), incomplete=True)
    used_src = {e["f"][1] for e in hist}
    free_src = [x for x in range(0, 250) if x not in used_src]
    body = []
    pending_follow = []
    for e in hist:
        k = rng.random()
        if e["k"] == "fast" and rng.random() < 0.5:
            d = (e["m"] + (0 if e["i"] == 0 else 1)) % nd if rng.random() < 0.4 else e["m"] % nd
        else:
            d = rng.randrange(nd)
        body.append({"op": "feed", "d": d, "f": e["f"]})
        if k < 0.08 and _nomatch:
            # a frame of a multi-definition PGN that matches no definition (ignored), later followed by a valid
            # variant of the same PGN on the same decoder
            pgn = rng.choice(_nomatch)
            dj = rng.randrange(nd)
            dd = catalog.BY_PGN[pgn][0]
            bad = bytearray(catalog.payload_for(rng, dd, None if dd["fast"] else 8))
            if len(bad) >= 2:
                bad[0], bad[1] = 0xFE, 0x07 | (bad[1] & 0xF8)      # manufacturer code 2046: used by no definition
            good_def = rng.choice(catalog.BY_PGN[pgn])
            good = catalog.payload_for(rng, good_def, None if good_def["fast"] else 8)
            sj = rng.choice(free_src)
            if dd["fast"]:
                body.append({"op": "probe_fast", "d": dj, "junk": "nomatch", "frames": [[pgn, sj, 255, 3, fr.hex()] for fr in n2k.fast_frames(bytes(bad), rng.randrange(8), 0xFF)]})
                follow = {"op": "probe_fast", "d": dj, "frames": [[pgn, sj, 255, 3, fr.hex()] for fr in n2k.fast_frames(good, rng.randrange(8), 0xFF)]}
            else:
                body.append({"op": "feed", "d": dj, "f": [pgn, sj, 255, 3, bytes(bad).hex()], "junk": "nomatch"})
                follow = {"op": "feed", "d": dj, "f": [pgn, sj, 255, 3, good.hex()]}
            pending_follow.append(follow)
        if pending_follow and rng.random() < 0.5:
            body.append(pending_follow.pop(0))
        if k < 0.25:
            j = _junk(rng, rng.randrange(nd), free_src)
            if e["k"] == "fast" and j.get("junk") == "short" and rng.random() < 0.7:
                # a truncated frame on the very stream (and decoder) that is being reassembled
                j["d"] = d
                # only frames that the reassembler must reject or ignore: no data at all, or a lone first-frame
                # header byte (a 2-byte frame with frame counter 0 would be a well-formed message start)
                data = bytes([rng.randrange(8) << 5]) if rng.random() < 0.8 else b""
                j["f"] = [e["f"][0], e["f"][1], e["f"][2], 3, data.hex()]
            body.append(j)
        if k > 0.9:
            body.append({"op": "encode", "e": rng.randrange(ne), "fast": rng.random() < 0.6, "src": rng.randrange(250),
                         "fmt": rng.choice(["ebyte", "usb", "yd"])})
    body.extend(pending_follow)
    if rng.random() < 0.3:      # a decoder created late, after the others have history
        ops_late = {"op": "create_dec", "d": nd, "cfg": rng.choice(list(CFGS)), "fmt": rng.choice(["ebyte", "usb", "yd", "plain"])}
        body.insert(rng.randrange(len(body) + 1), ops_late)
        nd += 1
        created = False
        for k_, o in enumerate(body):
            if o is ops_late:
                created = True
            elif created and o["op"] == "feed" and rng.random() < 0.3:
                o["d"] = nd - 1
    body = body[:60]
    for i in range(len(cfgs)):
        if cfgs[i] in ("dump", "dump2") and rng.random() < 0.6:
            # the dump file is closed in the middle of the history, sometimes twice (context manager plus explicit close)
            for _ in range(rng.choice([1, 2, 2])):
                body.insert(rng.randrange(len(body) + 1), {"op": "close_dec", "d": i})
    if rng.random() < 0.25:
        # the wall clock moves on (minutes) between operations: instances created later must behave like instances
        # created in a process of their own at that time
        t = 0.0
        for _ in range(rng.randrange(1, 4)):
            t += rng.choice([30.0, 200.0, 601.0, 1300.0])
            body.insert(rng.randrange(len(body) + 1), {"op": "clock", "t": t})
        ts = sorted((i, o["t"]) for i, o in enumerate(body) if o["op"] == "clock")
        for k, (i, _) in enumerate(ts):
            body[i]["t"] = sorted(x[1] for x in ts)[k]
        if rng.random() < 0.3:
            # ... and is set back (time synchronisation) before the probes
            body.append({"op": "clock", "t": max(0.0, ts[-1][1] - rng.choice([1.0, 5.0, 100.0, 3600.0]))})
    if rng.random() < 0.3:
        # gateway time stamps that do not run forward (a log replayed, two logs merged, midnight, a gateway whose clock
        # was set): what a text line carries as its time must not decide what later inputs decode to
        for o in body:
            if o["op"] == "feed" and not o.get("probe") and rng.random() < 0.5:
                fmt_ = fmts[o["d"]] if o["d"] < len(fmts) else "plain"
                if fmt_ == "yd":
                    o["ts"] = "%02d:%02d:%02d.%03d" % (rng.choice([0, 0, 12, 23]), rng.randrange(60), rng.randrange(60), rng.randrange(1000))
                elif fmt_ == "plain":
                    o["ts"] = "%04d-%02d-%02d-%02d:%02d:%02d.%03d" % (rng.choice([2019, 2022, 2022, 2031]), rng.randrange(1, 13), rng.randrange(1, 28),
                                                                      rng.randrange(24), rng.randrange(60), rng.randrange(60), rng.randrange(1000))
    if rng.random() < 0.05:
        # a long history of fast-packet messages that never finish, from many different sources
        dj = rng.randrange(nd)
        many = []
        for k in range(rng.choice([70, 90])):
            src = free_src[k % len(free_src)]
            fr = n2k.fast_frames(traffic.rbytes(rng, 20), rng.randrange(8), 0xFF)[0]
            many.append({"op": "feed", "d": dj, "f": [rng.choice([129029, 126996, 129540]), src, 255, 3, fr.hex()]})
        body = many + body
    ops += body
    # probes on every decoder
    used = {o["f"][1] for o in ops if o["op"] == "feed" and "f" in o}
    free = [s for s in range(1, 250) if s not in used]
    for d in range(nd):
        if not any(o["op"] == "create_dec" and o["d"] == d for o in ops):
            continue
        src = free[(d * 7) % len(free)]
        ops.append({"op": "feed", "d": d, "f": [127250, src, 255, 2, bytes([d, 0x10, 0x20, 0, 0, 0, 0, 0xFC]).hex()], "probe": "single"})
        # fast-packet probe on a stream the decoder has seen, with a counter different from its last first frame
        seen = [o for o in ops if o["op"] == "feed" and o["d"] == d and "f" in o and not o.get("junk")
                and o["f"][0] in (129029, 126996, 130816, 126720, 129540)]
        if seen:
            s = seen[-1]["f"]
            stream = (s[0], s[1], s[2])
            firsts = [bytes.fromhex(o["f"][4])[0] >> 5 for o in seen if tuple(o["f"][:3]) == stream and (bytes.fromhex(o["f"][4])[:1] or b"\x01")[0] & 0x1F == 0 and o["f"][4]]
            last_seq = firsts[-1] if firsts else 0
            seq = (last_seq + 1 + rng.randrange(6)) % 8
            if seq == last_seq:
                seq = (seq + 1) % 8
        else:
            stream = (130816, src, 255)
            seq = rng.randrange(8)
        payload = bytes([0xFF, 0x9F]) + traffic.rbytes(rng, rng.choice([4, 9, 20])) + b"\x01"
        ops.append({"op": "probe_fast", "d": d, "probe": "fast",
                    "frames": [[stream[0], stream[1], stream[2], 3, fr.hex()] for fr in n2k.fast_frames(payload, seq, 0xFF)]})
    return {"ops": ops}


def _junk(rng, d, free_src):
    """Inputs that must be rejected or ignored.  They come from source addresses the history does not use, so a
    short frame can never be mistaken for a frame of a message that is being reassembled."""
    k = rng.random()
    src = rng.choice(free_src)
    if k < 0.3:
        pgn = rng.choice(traffic.FAST_POOL + traffic.SINGLE_POOL)
        return {"op": "feed", "d": d, "f": [pgn, src, 255, 3, traffic.rbytes(rng, rng.randrange(0, 3)).hex()], "junk": "short"}
    if k < 0.5:
        return {"op": "feed", "d": d, "f": [rng.choice(traffic.UNKNOWN_POOL), src, 255, 3, traffic.rbytes(rng, 8).hex()], "junk": "unknown"}
    if k < 0.7:
        return {"op": "feed", "d": d, "f": [rng.choice([127250, 127257, 128267, 127488]), src, 255, 3, (b"\xfe" * 8).hex()], "junk": "range"}
    if k < 0.85:
        return {"op": "raw", "d": d, "entry": rng.choice(["yd", "actisense", "plain"]),
                "text": rng.choice(["", "garbage", "00:00:00.000 R ZZZZ 00", "A000001.000 XYZ", "A1.2 3 4", "x,y,z", "2022-09-28-11:36:59.668,3,abc,1,255,8,00",
                                    "00:00:00.000 X 15F11910 00 11", "A000123.456 01FF3 1F112 0G"]), "junk": "text"}
    if k < 0.93:
        # a whole (pre-assembled) message whose payload is out of range, through a text entry point - whatever format
        # this decoder otherwise receives: a log line pasted in, a second gateway
        pgn = rng.choice([127250, 127257, 128267, 129029, 129029, 126996, 129540])
        n = 8 if pgn in (127250, 127257, 128267) else rng.choice([43, 47, 134, 30])
        payload = bytes([rng.choice([0xFD, 0xFE])]) * n
        if rng.random() < 0.5:
            return {"op": "raw", "d": d, "entry": "actisense", "text": n2k.actisense_line(pgn, src, 255, 3, payload), "junk": "range_whole"}
        return {"op": "raw", "d": d, "entry": "plain_combined", "text": n2k.plain_line(pgn, src, 255, 3, payload), "junk": "range_whole"}
    b = bytearray(n2k.wire_usb(n2k.can_id(rng.choice([127250, 129029]), src, 255, 2), traffic.rbytes(rng, 8)))
    b[rng.randrange(2, 20)] ^= rng.randrange(1, 256)
    return {"op": "raw", "d": d, "entry": "usb", "hex": bytes(b).hex(), "junk": "checksum"}


# ------------------------------------------------------------------------------------------------------------
# execution (always inside a forked child)
# ------------------------------------------------------------------------------------------------------------
def _mk_cfg(name, shared):
    from nmea2000.consts import PhysicalQuantities
    kw = {}
    for k, val in CFGS[name].items():
        if isinstance(val, str) and val.startswith("@"):
            obj = shared[val]
            if k == "preferred_units":
                obj = shared.setdefault(val + "#enum", {PhysicalQuantities[a]: b for a, b in shared[val].items()})
            kw[k] = obj
        else:
            kw[k] = val
    return kw


def _res(m, exc):
    if exc is not None:
        return ("exc", type(exc).__name__)
    return msgs.key(m)


def _run_ops(ops, only_dec=None, skip_junk=False):
    """Execute an operation list on fresh instances; returns per-op results (None for ops not executed)."""
    from nmea2000.decoder import NMEA2000Decoder
    from nmea2000.encoder import NMEA2000Encoder
    from nmea2000.message import NMEA2000Message, NMEA2000Field
    vc = bus.VClock(0.0)
    bus.with_clock(vc)
    shared = copy.deepcopy(SHARED)
    before = copy.deepcopy(shared)
    decs, fm, encs = {}, {}, {}
    enc_fast = {}
    out = []
    from sim import fs as simfs
    fsctx = simfs.installed(simfs.FakeFS())
    fsctx.__enter__()
    try:
        return _run_ops_inner(ops, only_dec, skip_junk, vc, shared, before, decs, fm, encs, enc_fast, out)
    finally:
        fsctx.__exit__(None, None, None)


def _run_ops_inner(ops, only_dec, skip_junk, vc, shared, before, decs, fm, encs, enc_fast, out):
    from nmea2000.decoder import NMEA2000Decoder
    from nmea2000.encoder import NMEA2000Encoder
    from nmea2000.message import NMEA2000Message, NMEA2000Field
    for o in ops:
        r = None
        if o["op"] == "clock":
            vc.t = o["t"]              # the wall clock is global: it advances in every replay alike
            out.append(None)
            continue
        if only_dec is not None and o.get("d") != only_dec:
            out.append(None)
            continue
        if skip_junk and o.get("junk"):
            out.append(None)
            continue
        if o["op"] == "create_dec":
            kw = _mk_cfg(o["cfg"], shared)
            try:
                decs[o["d"]] = NMEA2000Decoder(**kw) if kw else NMEA2000Decoder()
                r = ("created",)
            except Exception as e:          # a valid configuration must construct, whatever happened before
                r = ("exc", type(e).__name__ + ": " + str(e)[:80])
            fm[o["d"]] = o["fmt"]
        elif o["op"] == "create_enc":
            if only_dec is None:
                encs[o["e"]] = NMEA2000Encoder()
                enc_fast[o["e"]] = 0
        elif o["op"] == "feed":
            d = decs.get(o["d"])
            if d is not None:
                r = _res(*bus.feed_frame(d, fm[o["d"]], o["f"], o.get("ts")))
        elif o["op"] == "close_dec":
            d = decs.get(o["d"])
            if d is not None:
                try:
                    d.close()
                    r = ("closed",)
                except Exception as e:
                    r = ("exc", type(e).__name__)
        elif o["op"] == "probe_fast":
            d = decs.get(o["d"])
            if d is not None:
                r = tuple(_res(*bus.feed_frame(d, fm[o["d"]], f)) for f in o["frames"])
        elif o["op"] == "raw":
            d = decs.get(o["d"])
            if d is not None:
                try:
                    if o["entry"] == "yd":
                        m = d.decode_yacht_devices_string(o["text"])
                    elif o["entry"] == "actisense":
                        m = d.decode_actisense_string(o["text"])
                    elif o["entry"] == "plain":
                        m = d.decode_basic_string(o["text"])
                    elif o["entry"] == "plain_combined":
                        m = d.decode_basic_string(o["text"], True)
                    else:
                        m = d.decode_usb(bytes.fromhex(o["hex"]))
                    r = _res(m, None)
                except Exception as e:
                    r = _res(None, e)
        elif o["op"] == "encode" and only_dec is None:
            e = encs.get(o["e"])
            if e is not None:
                if o["fast"]:
                    m = NMEA2000Decoder().decode_basic_string(GNSS_LINE, True)
                    if m is None:
                        out.append(("fresh_none",))
                        continue
                    m.source = o["src"]
                else:
                    m = NMEA2000Message(PGN=59904, id="isoRequest", source=o["src"], destination=255, priority=6)
                    m.fields = [NMEA2000Field("pgn", value=60928, raw_value=60928)]
                try:
                    pk = {"ebyte": e.encode_ebyte, "usb": e.encode_usb, "yd": e.encode_yacht_devices}[o["fmt"]](m)
                    if o["fast"]:
                        first = pk[0]
                        b0 = first[5] if o["fmt"] == "ebyte" else (first[10] if o["fmt"] == "usb" else int(first.decode().split()[1], 16))
                        r = ("enc", b0 >> 5, enc_fast[o["e"]] % 8, len(pk))
                        enc_fast[o["e"]] += 1
                    else:
                        r = ("enc1", len(pk))
                except Exception as ex:
                    r = ("encexc", type(ex).__name__, str(ex)[:80])
        out.append(r)
    shared.pop("@D1#enum", None)
    before.pop("@D1#enum", None)
    return {"results": out, "config_unchanged": shared == before,
            "config_now": json.dumps(shared, sort_keys=True, default=str)}


def _in_child(fn, *args):
    r, w = os.pipe()
    pid = os.fork()
    if pid == 0:
        code = 0
        try:
            os.close(r)
            try:
                res = ("ok", fn(*args))
            except BaseException as e:       # noqa
                import traceback
                res = ("err", traceback.format_exc())
            data = pickle.dumps(res)
            with os.fdopen(w, "wb") as f:
                f.write(data)
        except BaseException:
            code = 1
        finally:
            os._exit(code)
    os.close(w)
    with os.fdopen(r, "rb") as f:
        data = f.read()
    os.waitpid(pid, 0)
    if not data:
        raise RuntimeError("child produced no result")
    kind, val = pickle.loads(data)
    if kind == "err":
        files = [l for l in val.splitlines() if l.strip().startswith("File ")]
        from sim import runner
        if files and os.path.join(os.path.abspath(runner.REPO), "nmea2000") in files[-1]:
            raise runner.LibraryCrash(val.strip().splitlines()[-1] + " (" + files[-1].strip() + ")")
        raise RuntimeError("child failed:\n" + val)
    return val


def _twice(ops):
    a = _run_ops(ops)
    b = _run_ops(ops)
    return a, b


def execute(plan):
    ops = plan["ops"]
    v = []
    st = {"ops": len(ops)}
    a, b = _in_child(_twice, ops)
    res = a["results"]
    decs = sorted({o["d"] for o in ops if o["op"] == "create_dec"})
    # ---- I5: determinism on fresh instances ----
    if a["results"] != b["results"]:
        i = next(k for k, (x, y) in enumerate(zip(a["results"], b["results"])) if x != y)
        v.append(viol("C16.I5", i, "the same history on a second fresh set of instances differs at operation %d (%s): %s vs %s" %
                      (i, _op(ops[i]), _short(a["results"][i]), _short(b["results"][i]))))
    # ---- I4: configuration objects untouched; encoder counters ----
    if not a["config_unchanged"]:
        v.append(viol("C16.I4", len(ops), "a configuration object handed to a constructor was modified: now %s" % a["config_now"][:300]))
    for i, r in enumerate(res):
        if isinstance(r, tuple) and r and r[0] == "enc" and r[1] != r[2]:
            v.append(viol("C16.I4", i, "encoder %d stamped sequence counter %d on its fast-packet message #%d (expected %d): another "
                          "instance's activity leaked into it" % (ops[i]["e"], r[1], r[2], r[2])))
            break
        if isinstance(r, tuple) and r and r[0] == "fresh_none":
            v.append(viol("C16.I1", i, "a brand-new decoder instance returned nothing for a valid pre-assembled GNSS message "
                          "(operation %d) after other instances had been used: state leaks between instances" % i))
            break
        if isinstance(r, tuple) and r and r[0] == "encexc":
            v.append(viol("C16.I4", i, "encoder %d failed to encode a valid message: %s %s" % (ops[i]["e"], r[1], r[2])))
            break
    # ---- I1: isolation against solo replays in pristine processes ----
    if not v:
        for d in decs:
            solo = _in_child(_run_ops, ops, d)["results"]
            for i, o in enumerate(ops):
                if o.get("d") == d and o["op"] in ("feed", "raw", "probe_fast", "create_dec", "close_dec") and solo[i] != res[i]:
                    v.append(viol("C16.I1", i, "decoder %d, operation %d (%s): interleaved with other instances it returned %s, alone in a "
                                  "pristine process %s" % (d, i, _op(o), _short(res[i]), _short(solo[i]))))
                    break
            if v:
                break
    # ---- I2: junk is harmless ----
    njunk = sum(1 for o in ops if o.get("junk"))
    if not v and njunk:
        clean = _in_child(_run_ops, ops, None, True)["results"]
        for i, o in enumerate(ops):
            if not o.get("junk") and o["op"] in ("feed", "raw", "probe_fast") and clean[i] != res[i]:
                v.append(viol("C16.I2", i, "decoder %d, operation %d (%s) returns %s after the junk inputs in its history and %s when they "
                              "are left out" % (o["d"], i, _op(o), _short(res[i]), _short(clean[i]))))
                break
    # ---- I3: probes ----
    if not v:
        probe_ops = {}
        for i, o in enumerate(ops):
            if o.get("probe"):
                probe_ops.setdefault(o["d"], []).append(i)
        for d, idxs in probe_ops.items():
            cr = next((o for o in ops if o["op"] == "create_dec" and o["d"] == d), None)
            if cr is None:
                continue
            # address claims are the one part of the history that legitimately shapes later results (identity and
            # admission, C11), so the fresh decoder is given this decoder's claims before the probes
            # ... and the wall clock moves exactly as in the history (kept in the original order)
            keep = []
            pos = {}
            for i, o in enumerate(ops):
                if o is cr or o["op"] == "clock" or i in idxs or \
                        (o["op"] == "feed" and o["d"] == d and o["f"][0] == 60928 and not o.get("junk")):
                    pos[i] = len(keep)
                    keep.append(o)
            fr_all = _in_child(_run_ops, keep)["results"]
            fresh = [fr_all[pos[i]] for i in idxs]
            for k, i in enumerate(idxs):
                if fresh[k] != res[i]:
                    v.append(viol("C16.I3", i, "decoder %d: %s probe (%s) decodes to %s after the history but to %s on a fresh decoder" %
                                  (d, ops[i]["probe"], _op(ops[i]), _short(res[i]), _short(fresh[k]))))
                    break
            if v:
                break
    fed = {o["d"] for o in ops if o["op"] == "feed"}
    returned = sum(1 for r in res if isinstance(r, tuple) and r and isinstance(r[0], int))
    st.update({"decoders": len(decs), "junk_inputs": njunk, "messages_returned": returned,
               "children_forked": 2 + len(decs) + (1 if njunk else 0)})
    for o in ops:
        if o.get("junk"):
            st["junk_" + o["junk"]] = st.get("junk_" + o["junk"], 0) + 1
    h = hashlib.sha256(repr((ops, res)).encode()).hexdigest()
    return {"violations": v, "digest": h, "stats": st, "nontrivial": len(fed) >= 2 and njunk >= 1 and returned >= 1, "vtime": 0.0}


def _op(o):
    if o["op"] == "clock":
        return "wall clock -> %.0f s" % o["t"]
    if o["op"] == "probe_fast":
        return "fast-packet probe %s x%d frames" % (o["frames"][0][:3], len(o["frames"]))
    if o["op"] == "feed":
        return "feed %s%s" % (o["f"], (" junk=" + o["junk"]) if o.get("junk") else "")
    return json.dumps({k: v for k, v in o.items() if k != "msg"})[:120]


def _short(r):
    if r is None:
        return "nothing"
    if isinstance(r, tuple) and r and r[0] == "exc":
        return "an error (%s)" % r[1]
    if isinstance(r, tuple) and len(r) > 5:
        return "%s/%s src=%s fields=%s..." % (r[0], r[1], r[2], repr(r[5])[:100])
    return repr(r)[:160]


def describe(plan):
    return {"operations": [_op(o) for o in plan["ops"][:40]]}


def seam_check():
    from .common import seam_net, seam_clock, seam_fs
    return seam_clock() or seam_fs()
