"""C03 -- fast-packet segmentation and reassembly are inverse for every payload length."""
import hashlib
import json
import random

from sim import bus, n2k, msgs, catalog
from .common import REAL_BUS, STUB_BUS, ASSUME_BUS, viol

ID = "C03"
ENGINE = "bussim"
LEVEL = "exploration"
RUNS = {"quick": 30000, "thorough": 1500000}
BUDGET_S = {"quick": 45, "thorough": 480}
BATCH = 200
RULE = ("fault-free configuration of the bus: a device driven by the real NMEA2000Encoder -> encode_ebyte / encode_usb / "
        "encode_yacht_devices -> in-order lossless link -> real decoder, frame by frame.  Sweep: every payload length "
        "0..223 x every state 0..7 of the sender's sequence counter (complete; x 3 wire formats in thorough) through the "
        "public encode path with an injected raw codec on PGN 130816.  Seeded histories: 1-40 (sometimes 70-200) consecutive messages on "
        "one encoder/decoder pair mixing raw lengths with every encodable fast-packet definition (codec fix-points).  "
        "Non-trivial = history with >= 2 fast-packet messages (counter advances) or a sweep case.  Distinct = distinct "
        "sha256 of (history, frames, results).")
REAL = REAL_BUS
STUB = STUB_BUS + ["raw codec encode_pgn_130816_simRaw injected next to the generated codecs (returns the bytes carried in the "
                   "message) so that arbitrary payload lengths reach the public encode path"]
ASSUMPTIONS = ASSUME_BUS + ["payload observed through the binary data field of the 130816 fallback definition; last payload "
                            "byte non-zero so the length is attested",
                            "definition messages are codec fix-points, so C02/C09 codec defects are not reported here"]
SHRINK_PATHS = [("msgs",)]
EXHAUSTIVE = {"quick": "payload length 0..223 x sequence-counter state 0..7 (1792 messages) through the EByte path; "
                       "lengths 0..223 at counter 0 through USB and Yacht Devices",
              "thorough": "payload length 0..223 x sequence-counter state 0..7 x {EByte, USB, Yacht Devices} (5376 messages)"}

_fast = None
_single = None


RAW_OK = True


def prime():
    global _fast, RAW_OK
    catalog.load()
    _fast = [f for f in catalog.fixpoints() if f["fast"]]
    global _single
    _single = [f for f in catalog.fixpoints() if not f["fast"]]
    # If the encoder no longer finds codecs by name where the raw codec is injected, arbitrary payload lengths cannot
    # reach the public encode path: the check then runs on the encodable definitions only (and says so).
    RAW_OK = _raw_seam_problem() is None


def _install_raw_codec():
    import nmea2000.encoder as E
    import nmea2000.pgns as P
    if getattr(E, "encode_pgn_130816_simRaw", None) is None:
        def encode_pgn_130816_simRaw(m):
            return bytes.fromhex(m.get_field_by_id("raw").value)
        E.encode_pgn_130816_simRaw = encode_pgn_130816_simRaw
        P.encode_pgn_130816_simRaw = encode_pgn_130816_simRaw        # wherever the encoder looks its codecs up


def _raw_seam_problem():
    """Is the injected raw codec reachable through the public encode path?  (used by prime(), not as a gate)"""
    from nmea2000.encoder import NMEA2000Encoder
    from nmea2000.message import NMEA2000Message, NMEA2000Field
    _install_raw_codec()
    m = NMEA2000Message(PGN=130816, id="simRaw", source=1, destination=255, priority=3)
    m.fields = [NMEA2000Field("raw", value="ff9f0102030405060708090a", raw_value=None)]
    try:
        NMEA2000Encoder().encode_ebyte(m)
    except ValueError as e:
        if "No encoding function" in str(e):
            return "the encoder no longer finds per-PGN codecs by name in nmea2000.encoder / nmea2000.pgns (raw codec not reachable)"
    return None


def raw_payload(rng, L):
    if L == 0:
        return b""
    body = bytes(rng.getrandbits(8) for _ in range(max(0, L - 2)))
    p = (bytes([0xFF, 0x9F]) + body)[:L]
    if L == 1:
        p = b"\xff"
    if p[-1] == 0:
        p = p[:-1] + b"\x01"
    return p


def gen(rng, idx, tier):
    fmt = rng.choice(["ebyte", "usb", "yd"])
    n = rng.choice([1, 2, 5, 9, 17, 40]) if rng.random() < 0.97 else rng.choice([70, 130, 200])
    out = []
    for _ in range(n):
        if RAW_OK and rng.random() < 0.5:
            L = rng.choice([0, 1, 5, 6, 7, 8, 12, 13, 14, 20, 27, 28, 216, 217, 222, 223]) if rng.random() < 0.6 else rng.randrange(0, 224)
            out.append({"raw": raw_payload(rng, L).hex(), "src": rng.choice([1, 1, 1, rng.randrange(254)]), "prio": rng.choice([3, 3, rng.randrange(8)])})
        else:
            f = rng.choice(_fast)
            pf = (f["pgn"] >> 8) & 0xFF
            out.append({"json": f["json"], "payload": f["payload"], "pgn": f["pgn"], "id": f["id"], "src": rng.randrange(254),
                        "dst": rng.choice([255, rng.randrange(255)]) if pf < 240 else 255, "prio": rng.randrange(8)})
    # single-frame traffic between the fast-packet messages (an encoder serves both): it must not touch the counter
    # in a way that makes two fast-packet messages in a row on a stream look alike (7, 8, 15 ... in between)
    if rng.random() < 0.35 and _single:
        mixed = []
        for spec in out:
            mixed.append(spec)
            k = rng.choice([0, 0, 1, 2, 6, 7, 7, 8, 15, 16])
            for _ in range(k):
                f = rng.choice(_single)
                mixed.append({"single": f["json"], "src": rng.randrange(254), "prio": rng.randrange(8)})
        out = mixed[:160]
    return {"format": fmt, "msgs": out, "pre": rng.randrange(8)}


def sweeps(tier, seed):
    rng = random.Random("%d:C03sweep" % seed)
    plans = []
    if not RAW_OK:
        return plans
    fmts = ["ebyte", "usb", "yd"] if tier == "thorough" else ["ebyte"]
    for fmt in fmts:
        for c in range(8):
            for L0 in range(0, 224, 16):
                plans.append({"format": fmt, "pre": c, "sweep": True,
                              "msgs": [{"raw": raw_payload(rng, L).hex(), "src": 1, "prio": 3} for L in range(L0, min(224, L0 + 16))],
                              "_seed": c * 1000 + L0, "_idx": -1})
    if tier == "quick":
        for fmt in ("usb", "yd"):
            for L0 in range(0, 224, 16):
                plans.append({"format": fmt, "pre": 0, "sweep": True,
                              "msgs": [{"raw": raw_payload(rng, L).hex(), "src": 1, "prio": 3} for L in range(L0, min(224, L0 + 16))],
                              "_seed": L0, "_idx": -1})
    return plans


def _frames_of(fmt, packets):
    """Independent parse of the encoder's packets into (identifier, data bytes)."""
    out = []
    for p in packets:
        if fmt == "ebyte":
            out.append((int.from_bytes(p[1:5], "big"), bytes(p[5:5 + (p[0] & 0x0F)]), p[0] & 0x0F))
        elif fmt == "usb":
            out.append((int.from_bytes(p[5:9], "little"), bytes(p[10:10 + p[9]]), p[9]))
        else:
            t = p.decode().split()
            out.append((int(t[0], 16), bytes(int(x, 16) for x in t[1:]), len(t) - 1))
    return out


def _decode_packet(dec, fmt, p, n):
    if fmt == "ebyte":
        return dec.decode_tcp(p)
    if fmt == "usb":
        return dec.decode_usb(p)
    return dec.decode_yacht_devices_string("00:00:%02d.%03d R " % (n % 60, n % 1000) + p.decode().strip())


def execute(plan):
    from nmea2000.decoder import NMEA2000Decoder
    from nmea2000.encoder import NMEA2000Encoder
    from nmea2000.message import NMEA2000Message, NMEA2000Field
    _install_raw_codec()
    bus.with_clock(None)
    fmt = plan["format"]
    enc = NMEA2000Encoder()
    dec = NMEA2000Decoder()
    refdec = NMEA2000Decoder()
    encode = {"ebyte": enc.encode_ebyte, "usb": enc.encode_usb, "yd": enc.encode_yacht_devices}[fmt]
    v = []
    log = []
    # bring the sender's counter to the planned state through the public path
    # the counter the message before has used is read off its frames, not assumed
    prev_seq = prev_key = None
    for _ in range(plan.get("pre", 0)):
        if RAW_OK:
            m = NMEA2000Message(PGN=130816, id="simRaw", source=1, destination=255, priority=3)
            m.fields = [NMEA2000Field("raw", value="ff9f01", raw_value=None)]
        else:
            m = NMEA2000Message.from_json(_fast[0]["json"])
        try:
            pf_ = _frames_of(fmt, encode(m))
            prev_seq = pf_[0][1][0] >> 5
            prev_key = pf_[0][0]
        except Exception:
            prev_seq = prev_key = None
    st = {"format_" + fmt: 1, "messages": 0, "frames": 0}
    evno = 0
    for mi, spec in enumerate(plan["msgs"]):
        if "raw" in spec and not RAW_OK:
            continue
        if "single" in spec:
            d = json.loads(spec["single"])
            d["source"], d["priority"] = spec["src"], spec["prio"]
            d["raw_can_data"] = None
            try:
                for p_ in encode(NMEA2000Message.from_json(json.dumps(d))):
                    _decode_packet(dec, fmt, p_, evno)
                    evno += 1
            except Exception:
                pass                                   # single-frame codecs are C02/C06's business
            st["single_frame_messages_between"] = st.get("single_frame_messages_between", 0) + 1
            continue
        if "raw" in spec:
            payload = bytes.fromhex(spec["raw"])
            m = NMEA2000Message(PGN=130816, id="simRaw", source=spec["src"], destination=255, priority=spec["prio"])
            m.fields = [NMEA2000Field("raw", value=spec["raw"], raw_value=None)]
            pgn, dst = 130816, 255
        else:
            d = json.loads(spec["json"])
            d["source"], d["destination"], d["priority"] = spec["src"], spec["dst"], spec["prio"]
            d["raw_can_data"] = None
            m = NMEA2000Message.from_json(json.dumps(d))
            payload = bytes.fromhex(spec["payload"])
            pgn, dst = spec["pgn"], spec["dst"]
        L = len(payload)
        try:
            packets = encode(m)
        except Exception as e:
            v.append(viol("C03.frame.count", evno, "message #%d (PGN %d, %d bytes) could not be encoded: %r" % (mi, pgn, L, e)))
            break
        st["messages"] += 1
        try:
            frames = _frames_of(fmt, packets)
        except Exception as e:
            v.append(viol("C03.frame.size", evno, "message #%d: packet cannot be parsed: %r" % (mi, e)))
            break
        st["frames"] += len(frames)
        want_n = 1 + (max(0, L - 6) + 6) // 7
        idn = n2k.can_id(pgn, spec["src"], dst, spec["prio"])
        seqs = set()
        joined = b""
        ok = True
        if len(frames) != want_n:
            v.append(viol("C03.frame.count", evno, "payload of %d bytes was sent as %d frames, expected %d" % (L, len(frames), want_n)))
            ok = False
        for i, (fid, data, dl) in enumerate(frames):
            if not (1 <= len(data) <= 8) or dl > 8:
                v.append(viol("C03.frame.size", evno, "frame %d of a %d-byte message carries %d data bytes" % (i, L, dl)))
                ok = False
                break
            if fid != idn:
                v.append(viol("C03.frame.counter", evno, "frame %d carries identifier %08X, expected %08X" % (i, fid, idn)))
                ok = False
                break
            seqs.add(data[0] >> 5)
            if (data[0] & 0x1F) != i:
                v.append(viol("C03.frame.seq", evno, "frame counters of a %d-byte message run %s, expected 0,1,2,..." %
                              (L, [f[1][0] & 0x1F for f in frames])))
                ok = False
                break
            if i == 0:
                if len(data) < 2 or data[1] != L:
                    v.append(viol("C03.frame.length_byte", evno, "first frame announces %s bytes, payload has %d" %
                                  (data[1] if len(data) > 1 else None, L)))
                    ok = False
                    break
                joined += data[2:]
            else:
                if len(data) < 2:
                    v.append(viol("C03.frame.count", evno, "frame %d of a %d-byte message carries no payload byte" % (i, L)))
                    ok = False
                    break
                joined += data[1:]
        if ok and len(seqs) != 1:
            v.append(viol("C03.frame.counter", evno, "frames of one message carry sequence counters %s" % sorted(seqs)))
            ok = False
        # "differs from the previous message's": judged for two messages in a row on the same stream (same
        # identifier), which is what a receiver needs; a sender that keeps one counter per PGN, as the standard
        # describes it, satisfies the statement as much as one global counter does
        if ok and prev_seq is not None and seqs == {prev_seq} and prev_key == idn:
            v.append(viol("C03.frame.counter", evno, "sequence counter %d equals that of the message sent just before on the same "
                          "stream (identifier %08X)" % (prev_seq, idn)))
            ok = False
        if ok and prev_key == idn:
            st["same_stream_twice_in_a_row"] = st.get("same_stream_twice_in_a_row", 0) + 1
        if ok and joined[:L] != payload:
            v.append(viol("C03.frame.count", evno, "frames carry %s, payload is %s" % (joined[:L].hex(), payload.hex())))
            ok = False
        if ok and len(joined) > L:
            # filler inside the last frame (the standard pads with FF) is not a frame "for data that does not
            # exist": the frame count above is exact, so the excess is always shorter than one frame
            st["padded_last_frames"] = st.get("padded_last_frames", 0) + 1
        if ok:
            prev_seq = next(iter(seqs))
            prev_key = idn
        if not ok:
            break
        # receiver side
        outs = []
        for i, p in enumerate(packets):
            try:
                outs.append(_decode_packet(dec, fmt, p, evno))
            except Exception as e:
                outs.append(e)
            evno += 1
        for i, r in enumerate(outs[:-1]):
            if r is not None:
                v.append(viol("C03.decode.early", evno - len(outs) + i, "decoder returned %s at frame %d of %d of a %d-byte message" %
                              (type(r).__name__ if isinstance(r, Exception) else "a message", i, len(outs), L)))
                ok = False
                break
        if not ok:
            break
        last = outs[-1]
        if isinstance(last, Exception) or last is None:
            if "raw" in spec or _expected(refdec, spec) is not None:
                v.append(viol("C03.decode.none", evno - 1, "decoder returned %r for the last frame of a %d-byte message (PGN %d, "
                              "counter %d)" % (last, L, pgn, prev_seq)))
                break
            log.append((mi, None))
            continue
        if "raw" in spec:
            got = bus.observed_payload_int(last)
            want = int.from_bytes(payload, "little")
            if got != want or (last.source, last.destination, last.priority) != (spec["src"], 255, spec["prio"]):
                v.append(viol("C03.decode.payload", evno - 1, "%d-byte payload %s came back as %s (definition %s, src %s prio %s)" %
                              (L, payload.hex(), ("%x" % got) if got is not None else None, last.id, last.source, last.priority)))
                break
            log.append((mi, got))
        else:
            exp = _expected(refdec, spec)
            a, b = msgs.key(last, iso=False), msgs.key(exp, iso=False)
            if a != b:
                v.append(viol("C03.decode.payload", evno - 1, "PGN %d/%s came back different after segmentation and reassembly: %s" %
                              (pgn, spec["id"], msgs.diff(a, b))))
                break
            log.append((mi, a[:5]))
    h = hashlib.sha256(repr((fmt, plan.get("pre"), [(s.get("raw"), s.get("payload"), s["src"], s["prio"]) for s in plan["msgs"]], log)).encode()).hexdigest()
    if plan.get("sweep"):
        st["sweep_messages(length x counter)"] = len(plan["msgs"])
    if not RAW_OK:
        st["raw_codec_seam_unreachable(definitions_only)"] = 1
    nontrivial = bool(plan.get("sweep")) or st["messages"] >= 2
    if st["messages"] + plan.get("pre", 0) > 8:
        st["counter_wrapped"] = 1
    return {"violations": v, "digest": h, "stats": st, "nontrivial": nontrivial, "vtime": 0.0}


def _expected(refdec, spec):
    line = n2k.plain_line(spec["pgn"], spec["src"], spec["dst"], spec["prio"], bytes.fromhex(spec["payload"]))
    try:
        return refdec.decode_basic_string(line, True)
    except Exception:
        return None


def describe(plan):
    return {"format": plan["format"], "counter_state_before": plan.get("pre"),
            "messages": [({"raw_bytes": len(s["raw"]) // 2} if "raw" in s else ({"single_frame_message": 1} if "single" in s else
                                                                                 {"pgn": s["pgn"], "id": s["id"], "bytes": len(s["payload"]) // 2}))
                         for s in plan["msgs"]][:20]}
