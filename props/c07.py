"""C07 -- the same CAN frame decodes identically through every input format."""
import hashlib

from sim import bus, bustraffic, msgs
from .common import REAL_BUS, STUB_BUS, ASSUME_BUS, viol

ID = "C07"
ENGINE = "bussim"
LEVEL = "exploration"
RUNS = {"quick": 16000, "thorough": 800000}
BUDGET_S = {"quick": 45, "thorough": 480}
BATCH = 200
RULE = ("one run = one in-order lossless bus history (single-frame, fast-packet with interleaved streams, address claims, "
        "unknown PGNs, incomplete messages; short frames padded to 8 bytes by the devices in most runs) delivered to nine "
        "listeners: EByte, USB, Yacht Devices (R, T, lower-case hex), canboat plain frame-wise (both timestamp variants) "
        "at frame level; Actisense and plain pre-assembled at message level.  Replica agreement is judged at every frame "
        "and at every message boundary.  Non-trivial = at least one fast-packet message completed and one single-frame "
        "message decoded.  Distinct = distinct sha256 of (history, results).")
REAL = REAL_BUS
STUB = STUB_BUS
ASSUMPTIONS = ASSUME_BUS + ["honest note: the quantifier is over inputs; the simulation contributes the history part (frame-wise "
                            "versus pre-assembled delivery with interleaved streams) as replica agreement; frame values are sampled"]
SHRINK_PATHS = [("events",)]


def prime():
    from sim import catalog
    catalog.load()


def gen(rng, idx, tier):
    pad = rng.choice(["rand", "rand", 0xFF, None])
    # every listener gets the same decoder settings, drawn per run: what a format carries must not depend on them either
    cfg = rng.choice([{}, {}, {}, {"build_network_map": True}, {"build_network_map": True, "exclude_manufacturer_code": ["Garmin"]},
                      {"exclude_pgns": [129029, "vesselHeading"]}, {"preferred_units": {"ANGLE": "deg", "TEMPERATURE": "C"}}])
    # With admission settings a claim in the middle of a message legitimately leaves that message unfinished in the
    # frame-level decoders; a follow-up message repeating its counter would then be ambiguous, so the two features
    # (repeated counters, admission settings) are explored in separate runs
    admission = bool(cfg.get("build_network_map") or cfg.get("exclude_manufacturer_code"))
    ev = bustraffic.history(rng, pad=pad, all_defs=rng.random() < 0.6, multi_def_bias=True,
                            repeat_seq=(rng.random() < 0.4) and not admission,
                            max_active=3 if rng.random() < 0.9 else 24, burst_fast=0 if rng.random() < 0.95 else rng.choice([17, 20, 33]))
    # a talker whose value has not changed sends the very same single frame again, back to back: every format has to
    # carry the second copy too
    if rng.random() < 0.5:
        nxt = max([e["m"] for e in ev if isinstance(e.get("m"), int)] + [0]) + 1
        ev2 = []
        for e in ev:
            ev2.append(e)
            if e["k"] == "single" and rng.random() < 0.15:
                for _ in range(rng.choice([1, 1, 2])):
                    d = dict(e)
                    d["m"] = nxt
                    nxt += 1
                    ev2.append(d)
        ev = ev2
    # one more listener is a single decoder object that receives every message through a format chosen per message
    # (frame-level or pre-assembled): what a format carries must not depend on what the decoder saw before
    mix = {}
    for e in ev:
        if e["m"] not in mix:
            mix[e["m"]] = rng.choice(bus.FRAME_FORMATS + bus.WHOLE_FORMATS + ["ebyte", "actisense"])
    return {"events": ev, "mix": {str(k): v for k, v in mix.items()}, "config": cfg,
            "clock": rng.choice([0.0, 0.0, 100.0, 599.0, 601.0, 5000.0]),
            # time of day the Yacht Devices gateway stamps on its first line (10 ms per frame afterwards): sometimes the
            # history runs across midnight
            "yd_start": rng.choice([6114.43, 43200.0, 86399.9, 86399.95, 86398.0])}


def execute(plan):
    from nmea2000.decoder import NMEA2000Decoder
    from .common import decoder_kwargs
    vc = bus.VClock(0.0)
    bus.with_clock(vc)
    ff = bus.FRAME_FORMATS
    wf = bus.WHOLE_FORMATS
    kw = decoder_kwargs(plan.get("config") or {})
    fl = {f: NMEA2000Decoder(**kw) for f in ff}
    wl = {f: NMEA2000Decoder(**kw) for f in wf}
    mixed = NMEA2000Decoder(**kw)
    vc.t = plan.get("clock", 0.0)        # all listeners were created at t=0; the history plays at this wall-clock time
    mix = plan.get("mix") or {}
    v = []
    log = []
    st = {"frames": 0, "fast_completed": 0, "single_decoded": 0, "whole_compared": 0}
    # the history must be what the bus model produces: every fast-packet message is delivered as an in-order prefix
    # of its frames (a plan that lost a first or a middle frame can only come from the minimiser)
    chk = {}
    for e in plan["events"]:
        if e["k"] == "fast":
            if e.get("i", 0) != len(chk.setdefault(e["m"], [])):
                return {"violations": [], "digest": "invalid", "stats": {"invalid_plan": 1}, "nontrivial": False, "vtime": 0.0}
            chk[e["m"]].append(e["i"])
    seen = {}
    admission = bool(kw.get("build_network_map") or kw.get("exclude_manufacturer_code") or kw.get("include_manufacturer_code"))
    last_first = {}
    ambiguous = set()
    open_msgs = {}        # message -> source, for fast messages whose first frame was seen and last not yet
    tainted = set()       # messages during which their source (re-)claimed: admission may have changed mid-message
    for evno, e in enumerate(plan["events"]):
        st["frames"] += 1
        seen.setdefault(e.get("m"), []).append(e.get("i", 0))
        if e["k"] == "fast":
            open_msgs[e["m"]] = e["f"][1]
            if e.get("i", 0) == 0:
                # a first frame that repeats the counter of an *unfinished* message on its stream is ambiguous by
                # protocol (it can only arise when the minimiser removed frames): not judged
                key = tuple(e["f"][:3])
                c = bytes.fromhex(e["f"][4])[:1]
                c = (c[0] >> 5) if c else None
                prev = last_first.get(key)
                if prev is not None and prev[0] == c and (seen.get(prev[1]) != list(range(prev[2])) or prev[1] in ambiguous or prev[1] in tainted):
                    tainted.add(e["m"])
                    ambiguous.add(e["m"])
                last_first[key] = (c, e["m"], e.get("n", 1))
        if admission and e["f"][0] == 60928:
            for mm, src in open_msgs.items():
                if src == e["f"][1]:
                    tainted.add(mm)
        res = {}
        tod = (plan.get("yd_start", 6114.43) + 0.01 * evno) % 86400.0
        ydts = "%02d:%02d:%02d.%03d" % (int(tod) // 3600, int(tod) // 60 % 60, int(tod) % 60, int(round((tod - int(tod)) * 1000)) % 1000)
        for f in ff:
            m, exc = bus.feed_frame(fl[f], f, e["f"], ydts if f.startswith("yd") else None)
            res[f] = ("exc", type(exc).__name__) if exc is not None else msgs.key(m, iso=True)
        base = res["ebyte"]
        for f in ff[1:]:
            if res[f] != base:
                a, b = base, res[f]
                why = msgs.diff(a, b) if isinstance(a, tuple) and isinstance(b, tuple) and a[:1] != ("exc",) and b[:1] != ("exc",) \
                    else "%r vs %r" % (a if a is None or a[0] == "exc" else "message", b if b is None or b[0] == "exc" else "message")
                v.append(viol("C07.disagree.ebyte.%s" % f, evno, "frame %s (PGN %d src %d dst %d, frame %d of %d): EByte and %s "
                              "listeners disagree: %s" % (e["f"][4], e["f"][0], e["f"][1], e["f"][2], e.get("i", 0), e.get("n", 1), f, why)))
                break
        if v:
            break
        is_msg = isinstance(base, tuple) and base[:1] != ("exc",)
        last = e.get("i", 0) == e.get("n", 1) - 1
        mf = mix.get(str(e.get("m")))
        if mf in ff:
            m, exc = bus.feed_frame(mixed, mf, e["f"], ydts if mf.startswith("yd") else None)
            r = ("exc", type(exc).__name__) if exc is not None else msgs.key(m, iso=True)
            st["mixed_frame_level"] = st.get("mixed_frame_level", 0) + 1
            # (a message that repeats the counter of an unfinished message is ambiguous: the two decoders may hold
            # different leftovers of that unfinished message, because the mixed one may never have seen its frames)
            if r != base and e.get("m") not in ambiguous and e.get("m") not in tainted:
                v.append(viol("C07.disagree.ebyte.mixed", evno, "a decoder that receives each message through a different format "
                              "(this one frame-wise as %s) disagrees with a %s-only decoder at frame %d of %d of PGN %d src %d: %s vs %s" %
                              (mf, "EByte", e.get("i", 0), e.get("n", 1), e["f"][0], e["f"][1], _b(r), _b(base))))
                break
        elif mf in wf and last and e.get("whole") is not None and seen.get(e.get("m")) == list(range(e.get("n", 1))) \
                and e.get("m") not in tainted:
            pgn, src, dst, prio, _ = e["f"]
            m, exc = bus.feed_whole(mixed, mf, [pgn, src, dst, prio, e["whole"]])
            r = ("exc", type(exc).__name__) if exc is not None else msgs.key(m, iso=True)
            st["mixed_pre_assembled"] = st.get("mixed_pre_assembled", 0) + 1
            if r != base and not (r is not None and r[:1] == ("exc",) and base is not None and base[:1] == ("exc",)):
                v.append(viol("C07.disagree.ebyte.mixed", evno, "a decoder that receives each message through a different format "
                              "(this one pre-assembled as %s) disagrees with frame-wise delivery of PGN %d src %d (%d-byte payload): %s vs %s" %
                              (mf, pgn, src, len(e["whole"]) // 2, _b(r), _b(base))))
                break
        if is_msg and e["k"] == "fast" and not last and e.get("m") not in ambiguous and e.get("m") not in tainted:
            v.append(viol("C07.early.ebyte", evno, "frame-level listeners returned a message at frame %d of %d" % (e["i"], e["n"])))
            break
        if is_msg:
            st["fast_completed" if e["k"] == "fast" else "single_decoded"] += 1
        if last and e.get("whole") is not None and seen.get(e.get("m")) == list(range(e.get("n", 1))) and e.get("m") not in tainted:
            pgn, src, dst, prio, _ = e["f"]
            for f in wf:
                m, exc = bus.feed_whole(wl[f], f, [pgn, src, dst, prio, e["whole"]])
                r = ("exc", type(exc).__name__) if exc is not None else msgs.key(m, iso=True)
                st["whole_compared"] += 1
                if r != base and not (r is not None and r[:1] == ("exc",) and base is not None and base[:1] == ("exc",)):
                    why = msgs.diff(base, r) if isinstance(r, tuple) and isinstance(base, tuple) and r[:1] != ("exc",) and base[:1] != ("exc",) \
                        else "%r vs %r" % (base if base is None or base[0] == "exc" else "message", r if r is None or r[0] == "exc" else "message")
                    v.append(viol("C07.disagree.ebyte.%s" % f, evno, "PGN %d src %d (%d-byte payload): frame-wise delivery and "
                                  "pre-assembled %s delivery disagree: %s" % (pgn, src, len(e["whole"]) // 2, f, why)))
                    break
            if v:
                break
        if last:
            open_msgs.pop(e.get("m"), None)
        log.append(base[:5] if isinstance(base, tuple) else base)
    h = hashlib.sha256(repr(([e["f"] for e in plan["events"]], log)).encode()).hexdigest()
    return {"violations": v, "digest": h, "stats": st,
            "nontrivial": st["fast_completed"] > 0 and st["single_decoded"] > 0, "vtime": 0.0}


def _b(r):
    if r is None:
        return "nothing"
    if r[:1] == ("exc",):
        return "error %s" % r[1]
    return "message %s/%s" % (r[0], r[1])


def describe(plan):
    return {"history": [{"frame": e["f"], "kind": e["k"], "i": e.get("i"), "n": e.get("n")} for e in plan["events"][:25]]}


def seam_check():
    from .common import seam_net, seam_clock, seam_fs
    return seam_clock()
