"""Seeded session shapes shared by C13 / C14 / C19: fault episodes, then a healthy gateway."""
from sim import traffic, catalog

FAULTS = ["eof", "eof_mid", "reset", "reset_mid", "accept_eof", "garbage_eof", "busy", "write_fail"]


def spaced_stream(rng, kind, tags):
    segs = [["pkt", traffic.tagged_packet(kind, t).hex()] for t in tags]
    return segs


def chunking(rng, segs, kind):
    packets = [bytes.fromhex(s[1]) for s in segs]
    if rng.random() < 0.5:
        # packet-aligned, one packet per chunk, spaced in time
        chunks = [len(p) for p in packets]
    else:
        chunks, _ = traffic.cuts_for(rng, packets, kind)
    gaps = [rng.choice([1e-4, 0.001, 0.01, 0.05, 0.2]) for _ in range(rng.randrange(1, 6))]
    return chunks, gaps


def gen_script(rng, kind, n_episodes=None, enabled=None, final_packets=None):
    """Returns (script, info): fault episodes followed by a healthy final entry with tags >= 100."""
    enabled = enabled or [f for f in FAULTS if rng.random() < 0.7] or ["eof"]
    if kind != "ebyte":
        enabled = [f for f in enabled if f != "busy"] or ["eof"]
    if kind == "actisense":
        enabled = [f for f in enabled if f != "write_fail"] or ["reset"]
    n_episodes = rng.choice([0, 1, 1, 2, 3, 4]) if n_episodes is None else n_episodes
    script = []
    tag = 0
    sends = []        # (script index, relative time) hints for write-fault episodes
    for _ in range(n_episodes):
        for _ in range(rng.choice([0, 0, 1, 2, 3, 6, 9])):
            # refusals are instant; failing connects (timeouts, unreachable hosts) can take longer than the back-off itself
            a_ = rng.choice(["refuse", "refuse", "fail"])
            script.append({"a": a_, "lat": rng.choice([0.0, 0.001, 0.05, 0.5]) if a_ == "refuse" or rng.random() < 0.6 else rng.choice([0.7, 2.5, 12.0])})
        f = rng.choice(enabled)
        n = rng.randrange(0, 5)
        tags = list(range(tag, tag + n))
        tag += n
        segs = spaced_stream(rng, kind, tags)
        e = {"a": "accept", "lat": rng.choice([0.0, 0.001, 0.05, 0.5]), "stream": segs, "start": rng.choice([0.0, 0.001, 0.05]),
             "fault": f}
        e["chunks"], e["gaps"] = chunking(rng, segs, kind)
        total = sum(len(s[1]) // 2 for s in segs)
        if f == "eof":
            e["end"] = {"k": "eof", "after": total, "d": rng.choice([0.0, 0.001, 0.1, 1.0])}
        elif f == "reset":
            e["end"] = {"k": "reset", "after": total, "d": rng.choice([0.0, 0.001, 0.1, 1.0])}
        elif f in ("eof_mid", "reset_mid"):
            extra = traffic.tagged_packet(kind, 250)
            segs.append(["partial", extra.hex()])
            cut = total + rng.randrange(1, len(extra))
            e["chunks"], e["gaps"] = chunking(rng, segs, kind)
            e["end"] = {"k": f.split("_")[0], "after": cut, "d": rng.choice([0.0, 0.001, 0.1])}
        elif f == "accept_eof":
            e["stream"] = []
            e["chunks"] = []
            e["end"] = {"k": "eof", "after": 0, "d": 0.0}
            tag -= n
        elif f == "garbage_eof":
            g = traffic.garbage(rng, kind)
            segs.append(["garbage", g.hex()])
            e["chunks"], e["gaps"] = chunking(rng, segs, kind)
            e["end"] = {"k": "eof", "after": total + len(g), "d": rng.choice([0.0, 0.001, 0.1])}
        elif f == "busy":
            e["busy"] = True
            e["stream"] = []
            e["chunks"] = []
            tag -= n
            if rng.random() < 0.5:
                e["end"] = {"k": "eof", "after": 13, "d": rng.choice([0.0, 1.0, 31.0])}
            elif rng.random() < 0.6:
                # a write that fails while the receive path is parked in its busy pause: the one situation in which the
                # sender, not the receive loop, is first to learn that the link is gone
                e["w"] = {"fail_at": rng.choice([0, 0, 1, 2]), "fail_exc": rng.choice(["reset", "etimedout", "epipe"])}
                sends.append(len(script))
        elif f == "write_fail":
            # waveshare writes its configuration packet first (index 0)
            e["w"] = {"fail_at": rng.choice([0, 1, 1, 2, 3]), "fail_exc": rng.choice(["reset", "etimedout", "epipe"])}
            sends.append(len(script))
        if rng.random() < 0.3:
            e.setdefault("w", {})["pause"] = {str(rng.randrange(0, 4)): rng.choice([0.001, 0.05, 1.0])}
        script.append(e)
    if rng.random() < 0.3:
        for _ in range(rng.choice([1, 2, 5, 8])):
            script.append({"a": "refuse", "lat": rng.choice([0.0, 0.001, 0.05])})
    n = rng.randrange(3, 9) if final_packets is None else final_packets
    ftags = list(range(100, 100 + n))
    segs = spaced_stream(rng, kind, ftags)
    e = {"a": "accept", "lat": rng.choice([0.0, 0.001, 0.05]), "stream": segs, "start": rng.choice([0.001, 0.05, 1.0]),
         "final": True}
    e["chunks"], e["gaps"] = chunking(rng, segs, kind)
    script.append(e)
    return script, {"final_tags": ftags, "write_fail_entries": sends}


_sendable = None


def sendable(rng, multi=None):
    """JSON text of a message every encoder accepts (codec fix-point)."""
    global _sendable
    if _sendable is None:
        fx = catalog.fixpoints()
        _sendable = ([f for f in fx if not f["fast"]], [f for f in fx if f["fast"] and len(f["payload"]) > 12])
    single, fast = _sendable
    if multi is None:
        multi = rng.random() < 0.4
    return rng.choice(fast if multi else single)["json"]


def cb_faults(rng, n=40, p_raise=None, p_delay=None, delays=(0.001, 0.1, 1.0, 5.0)):
    cfg = {"raise": [], "delay": {}}
    p_raise = rng.choice([0, 0, 0.2, 0.6]) if p_raise is None else p_raise
    p_delay = rng.choice([0, 0, 0.2, 0.5]) if p_delay is None else p_delay
    for i in range(n):
        if rng.random() < p_raise:
            cfg["raise"].append(i)
        if rng.random() < p_delay:
            cfg["delay"][str(i)] = rng.choice(delays)
    return cfg
