"""C20 -- serial (USB) stream resynchronises after noise with bounded buffering."""
from sim import net, n2k, traffic
from .common import REAL_NET, STUB_NET, ASSUME_NET, viol

ID = "C20"
ENGINE = "netsim"
LEVEL = "exploration"
RUNS = {"quick": 10000, "thorough": 400000}
BUDGET_S = {"quick": 45, "thorough": 480}
BATCH = 40
RETAIN_LIMIT = 256
RULE = ("one run = the Waveshare serial client x a stream of segments (valid 20-byte packets with unique tags whose "
        "bytes after the header contain no AA 55; packets with one corrupted byte; truncated packets; noise runs of "
        "1 byte .. 16 KiB that are marker-free, contain markers, end in AA, or consist of AA only) x a segmentation into "
        "reads (including cuts inside the marker).  Thorough adds long streams (up to 1 MiB of noise) for the buffering "
        "bound.  Non-trivial = at least one damaged segment or noise run AND at least one packet delivered.  Distinct = "
        "distinct sha256 of the event trace.")
REAL = REAL_NET
STUB = STUB_NET
ASSUMPTIONS = ASSUME_NET + ["'marker-free' is judged on the damage run together with the last byte of the preceding valid "
                            "packet (a checksum byte AA followed by noise starting with 55 is a marker on the wire)",
                            "retained bytes = total length of bytes-like objects reachable from the client's instance "
                            "attributes (depth <= 2), sampled every loop iteration; bound 256 bytes",
                            "a 20-byte window that starts with AA 55 and has a valid checksum is a packet, wherever "
                            "it lies in the stream (windows that happen to check out are not blamed on the client)"]
SHRINK_PATHS = [("script", "*", "stream"), ("script", "*", "chunks")]

_ID = n2k.can_id(127250, 7, 255, 2)


def tagged(i):
    data = bytes([i % 250]) + (1000 + i // 250).to_bytes(2, "little") + bytes([0, 0, 0, 0, 0xFC])
    p = n2k.wire_usb(_ID, data)
    return p if p.find(b"\xaa\x55", 2) == -1 else None


_aa_tags = []


def aa_tags():
    """Tags whose packet ends in a checksum byte 0xAA (the first half of a marker)."""
    if not _aa_tags:
        for i in range(60000):
            p = tagged(i)
            if p is not None and p[19] == 0xAA:
                _aa_tags.append(i)
    return _aa_tags


def noise(rng, kind):
    if kind == "free":
        n = rng.choice([1, 2, 5, 19, 20, 21, 60, 100, 101, 300, 2000, 16384]) if rng.random() < 0.8 else rng.randrange(1, 4000)
        b = bytearray(rng.getrandbits(8) for _ in range(min(n, 400)))
        if n > 400:
            b = (b * (n // len(b) + 1))[:n]
        # strip markers
        for i in range(len(b) - 1):
            if b[i] == 0xAA and b[i + 1] == 0x55:
                b[i + 1] = 0x54
        if b and b[0] == 0x55:
            b[0] = 0x56                  # never completes a marker with a preceding AA checksum byte
        if b and b[-1] == 0xAA and rng.random() < 0.5:
            b[-1] = 0xAB
        return bytes(b)
    if kind == "aa":
        return b"\xaa" * rng.choice([1, 2, 7, 40, 130, 1000, 5000])
    if kind == "ends_aa":
        return noise(rng, "free")[:-1] + b"\xaa"
    if kind == "marker":
        a = noise(rng, "free")[:rng.choice([0, 3, 30, 200])]
        b = noise(rng, "free")[:rng.choice([0, 1, 5, 17, 18, 19, 30, 200])]
        return a + b"\xaa\x55" + b
    if kind == "train":
        # several false markers in a row, each followed by fewer than 20 bytes: a run of rejected candidates
        out = b""
        for _ in range(rng.choice([2, 5, 6, 9])):
            out += b"\xaa\x55" + noise(rng, "free")[:rng.choice([3, 10, 18, 18, 25])]
        return out
    if kind == "half":
        return noise(rng, "free")[:rng.choice([0, 5, 50])] + b"\xaa"
    raise ValueError(kind)


def gen(rng, idx, tier):
    segs = []
    n = rng.choice([3, 6, 12, 25, 40])
    tag = rng.randrange(0, 40000)
    enabled = [k for k in ("free", "aa", "ends_aa", "marker", "half", "corrupt", "trunc", "train") if rng.random() < 0.6] or ["free"]
    if "corrupt" in enabled and rng.random() < 0.2:
        enabled = ["corrupt"] * 4 + enabled           # runs of damaged packets
    long_noise = tier == "thorough" and idx % 50 == 0
    cut_after = []
    for _ in range(n):
        k = rng.random()
        if k < 0.08:
            # a packet whose checksum byte is AA, then marker-free noise that starts with 55: once the packet has been
            # consumed its AA is gone, so a correct client sees no marker here, wherever the read boundaries fall
            p = tagged(rng.choice(aa_tags()))
            segs.append(["pkt", p.hex()])
            cut_after.append(sum(len(x[1]) // 2 for x in segs))
            nb = b"\x55" + noise(rng, "free")[:rng.choice([0, 1, 3, 10, 16, 17, 18, 30])]
            segs.append(["noise_55", nb.hex()])
            continue
        if k < 0.55:
            p = None
            while p is None:
                tag += 1
                p = tagged(tag)
            segs.append(["pkt", p.hex()])
        else:
            kind = rng.choice(enabled)
            if kind == "corrupt":
                p = None
                while p is None:
                    tag += 1
                    p = tagged(tag)
                b = bytearray(p)
                b[rng.randrange(20)] ^= rng.randrange(1, 256)
                segs.append(["corrupt", bytes(b).hex()])
            elif kind == "trunc":
                p = None
                while p is None:
                    tag += 1
                    p = tagged(tag)
                lose = rng.randrange(1, 20)
                at = rng.randrange(0, 20 - lose + 1)
                segs.append(["trunc", (p[:at] + p[at + lose:]).hex()])
            else:
                nb = noise(rng, kind)
                if long_noise and kind == "free":
                    nb = (nb * (1 + (1 << 20) // max(1, len(nb))))[: 1 << 20]
                segs.append(["noise_" + kind, nb.hex()])
    # a final valid packet so that resynchronisation after the last damage is observable
    for _ in range(2):
        p = None
        while p is None:
            tag += 1
            p = tagged(tag)
        segs.append(["pkt", p.hex()])
    packets = [bytes.fromhex(s[1]) for s in segs]
    chunks, mode = traffic.cuts_for(rng, packets, "waveshare")
    if rng.random() < 0.3:
        # reads of exactly the client's read size and off-by-one around it
        total = sum(len(p) for p in packets)
        size = rng.choice([99, 100, 101, 20, 21, 19])
        chunks = [size] * (total // size + 1)
        mode = "fixed%d" % size
    if cut_after and rng.random() < 0.7:
        # make sure a read ends exactly where such a packet ends
        bounds = set()
        pos = 0
        for c in chunks:
            pos += c
            bounds.add(pos)
        total = sum(len(p) for p in packets)
        bounds |= set(cut_after)
        bl = sorted(b for b in bounds if 0 < b <= total)
        chunks = [b - a for a, b in zip([0] + bl, bl + [total]) if b > a]
        mode += "+cut_after_aa"
    if len(chunks) > 3000:
        chunks = chunks[:3000]            # the rest goes out in 4 KiB deliveries: bounded work per run
        mode += "+capped"
    gaps = [rng.choice([0.0, 1e-5, 1e-3, 0.02]) for _ in range(rng.randrange(1, 6))]
    if cut_after:
        gaps = [g if g > 0 else 1e-5 for g in gaps]          # separate reads, not one merged delivery
    entry = {"a": "accept", "lat": 0.001, "stream": segs, "chunks": chunks, "gaps": gaps, "start": 0.001}
    return {"client": "waveshare", "config": {}, "script": [entry], "ops": [{"at": 0.0, "op": "connect", "id": 0}],
            "cb": {}, "knobs": {"min_end": 1.0, "tail": 5.0, "max_end": 600.0, "retain": True}, "mode": mode}


def valid_window(b):
    return len(b) == 20 and b[0] == 0xAA and b[1] == 0x55 and n2k.usb_checksum(b) == b[19]


def execute(plan):
    o = net.run(plan)
    v = []
    end_ev = len(o.trace)
    entry = plan["script"][0] if plan.get("script") else {}
    segs = entry.get("stream") or []
    stream = b"".join(bytes.fromhex(s[1]) for s in segs)
    if o.crashed:
        v.append(viol("C20.N2", end_ev, "run ended abnormally: %s" % o.crashed))
    if o.stalls:
        v.append(viol("C20.N2", end_ev, "busy loop: %r" % (o.stalls[0],)))
    # ---- N1: only checksum-valid windows, at increasing offsets ------------------------------------------
    pos = -1
    offsets = []
    for r in o.recv:
        raw = r[3].raw_can_data
        raw = bytes(raw) if isinstance(raw, (bytes, bytearray, memoryview)) else b""
        if not valid_window(raw):
            v.append(viol("C20.N1", r[0], "delivered a message whose packet %s is not a checksum-valid AA 55 window" % raw.hex()))
            break
        at = stream.find(raw, pos + 1)
        if at == -1:
            if stream.find(raw) == -1:
                v.append(viol("C20.N1", r[0], "delivered packet %s does not occur in the byte stream" % raw.hex()))
            else:
                v.append(viol("C20.N1", r[0], "delivered packet %s out of order or twice (already passed offset %d)" % (raw.hex(), pos)))
            break
        offsets.append(at)
        pos = at
    # ---- N2: resynchronisation --------------------------------------------------------------------------------
    delivered = {bytes(r[3].raw_can_data) for r in o.recv if isinstance(r[3].raw_can_data, (bytes, bytearray))}
    off = 0
    damage_start = 0
    last_valid_end = None
    st = dict(o.fired)
    must = 0
    prev_clean = True
    sent_bytes = o.conns[0]["delivered"] if o.conns else 0
    settled = bool(o.conns) and o.end_vt >= o.conns[0].get("last_chunk_at", 0.0) + 3.0
    for kind_, hx in segs:
        b = bytes.fromhex(hx)
        if kind_ == "pkt":
            dmg = stream[damage_start:off]
            # the last byte of the preceding valid packet can only take part in a marker if that packet may not have
            # been consumed as a packet (it followed damage that contains a marker)
            lead = stream[damage_start - 1:damage_start] if (damage_start > 0 and not prev_clean) else b""
            clean = (lead + dmg).find(b"\xaa\x55") == -1
            prev_clean = clean
            if clean and settled and off + len(b) <= sent_bytes:
                must += 1
                if b not in delivered:
                    v.append(viol("C20.N2", end_ev, "valid packet at offset %d (%s) was not delivered although only %s precedes it "
                                  "since the previous valid packet" % (off, b.hex(), "nothing" if not dmg else
                                                                       "%d bytes of marker-free noise" % len(dmg))))
                    break
            damage_start = off + len(b)
        else:
            st["segments_" + kind_] = st.get("segments_" + kind_, 0) + 1
        off += len(b)
    # ---- N3: bounded buffering ----------------------------------------------------------------------------------
    if o.max_retained > RETAIN_LIMIT:
        it, vt = o.max_retained_at
        ev = next((e[0] for e in o.trace if e[2] >= it), end_ev)
        v.append(viol("C20.N3", ev, "the client holds %d bytes between reads (limit %d) at t=%.6f" % (o.max_retained, RETAIN_LIMIT, vt)))
    st["packets_delivered"] = len(o.recv)
    st["packets_that_must_be_delivered"] = must
    st["stream_bytes"] = len(stream)
    if o.max_retained > 64:
        st["retained_over_64"] = 1
    for k, c in traffic.cut_probes([bytes.fromhex(s[1]) for s in segs], entry.get("chunks") or [], "waveshare").items():
        st[k] = c
    damaged = any(s[0] != "pkt" for s in segs)
    return {"violations": v, "digest": o.digest, "stats": st, "nontrivial": damaged and len(o.recv) > 0, "vtime": o.end_vt}


def describe(plan):
    e = plan["script"][0]
    return {"segments": [[s[0], (s[1] if len(s[1]) <= 80 else s[1][:40] + "...(%d bytes)" % (len(s[1]) // 2))] for s in e["stream"]][:14],
            "segmentation_mode": plan.get("mode"), "chunk_sizes": (e.get("chunks") or [])[:16]}


def seam_check():
    from .common import seam_net, seam_clock, seam_fs
    return seam_net(['waveshare'])
