"""Shared pieces of the netsim property modules."""
import random

from sim import clock, msgs

CLIENTS = ["ebyte", "actisense", "yd", "waveshare"]

REAL_NET = ["nmea2000.ioclient (all four gateway clients: connect/retry, receive loop, queue consumer, send, close)",
            "nmea2000.decoder / encoder / message / pgns / utils",
            "asyncio.StreamReader / StreamWriter / StreamReaderProtocol / Queue / Lock / Task (CPython 3.12)",
            "asyncio.BaseEventLoop._run_once (ready queue and timer heap)",
            "tenacity AsyncRetrying / wait_exponential"]
STUB_NET = ["event-loop selector and clock (virtual time)", "TCP / serial transport (SimTransport)",
            "the gateway peer and its script", "wall clock seen by the decoder (virtual datetime)",
            "user callbacks", "serial_asyncio.open_serial_connection (pyserial is never opened)"]
REAL_BUS = ["nmea2000.decoder (all decode_* entry points, reassembly, filters, source map, dump)",
            "nmea2000.encoder", "nmea2000.message", "nmea2000.pgns", "nmea2000.utils"]
STUB_BUS = ["CAN bus and device nodes (frame histories with faults already applied)",
            "format gateways (independent serialisers for EByte, USB, Yacht Devices, Actisense, canboat plain)",
            "wall clock (virtual datetime)", "dump file (in-memory file system)"]
ASSUME_NET = ["CPython 3.12 asyncio stream semantics; the transport stub follows the selector transport's contract "
              "(connection_lost after close, drain() raising only after a loss, single pause/resume)",
              "tenacity waits go through asyncio.sleep",
              "only executions a real asyncio loop can produce are explored (FIFO ready queue kept; only I/O and "
              "timer timing varies)",
              "seeded sampling: a clean batch is evidence, not proof"]
ASSUME_BUS = ["format gateways are faithful to the wire formats as documented in the code's own references",
              "seeded sampling: a clean batch is evidence, not proof"]


def gen_config(rng, allow_map=True):
    k = rng.random()
    if k < 0.35:
        return {}
    if k < 0.5:
        return {"exclude_pgns": rng.sample([127250, 129029, 130816, 60928, 127257, 65280, "vesselHeading", "gnssPositionData"],
                                           rng.randrange(1, 4))}
    if k < 0.65:
        return {"include_pgns": rng.sample([127250, 129029, 130816, 60928, 127257, 126996, 127488, 59904], rng.randrange(1, 5))}
    if k < 0.75:
        return {"preferred_units": rng.choice([{"TEMPERATURE": "C"}, {"ANGLE": "deg", "SPEED": "kts"},
                                               {"PRESSURE": "bar", "TEMPERATURE": "F"}])}
    if k < 0.9 and allow_map:
        return {"build_network_map": True}
    if allow_map:
        return {"build_network_map": True, "exclude_manufacturer_code": ["Furuno"]}
    return {}


def decoder_kwargs(cfg):
    from nmea2000.consts import PhysicalQuantities
    kw = dict(cfg)
    pu = kw.pop("preferred_units", None)
    if pu:
        kw["preferred_units"] = {PhysicalQuantities[k]: v for k, v in pu.items()}
    return kw


def reference_decode(kind, packets, cfg):
    """What a fresh decoder with the same settings returns for the packets, one by one."""
    from nmea2000.decoder import NMEA2000Decoder
    clock.install()
    clock.set_source(None)
    d = NMEA2000Decoder(**decoder_kwargs(cfg))
    out = []
    for p in packets:
        try:
            if kind == "ebyte":
                m = d.decode_tcp(p)
            elif kind == "waveshare":
                m = d.decode_usb(p)
            elif kind == "yd":
                m = d.decode_yacht_devices_string(p.decode("utf-8", errors="ignore").strip())
            else:
                m = d.decode_actisense_string(p.decode("utf-8", errors="ignore").strip())
        except Exception:
            m = None
        if m is not None:
            out.append(m)
    return out


def viol(check, event, msg):
    return {"check": check, "event": event, "msg": msg}


def seam_net(kinds=CLIENTS):
    """Every client type must reach the simulated gateway through the connection seam, read the virtual clock for its
    timers and deliver through the registered callback.  Returns None or a description of the drift."""
    from sim import net, traffic
    for kind in kinds:
        pkt = traffic.tagged_packet(kind, 7)
        plan = {"client": kind, "config": {}, "script": [{"a": "accept", "lat": 0.01, "stream": [["pkt", pkt.hex()]], "chunks": [len(pkt)],
                                                          "gaps": [0.01], "start": 0.01}],
                "ops": [{"at": 0.0, "op": "connect", "id": 0}], "cb": {}, "knobs": {"min_end": 1.0, "tail": 2.0, "max_end": 60.0}}
        o = net.run(plan)
        if len(o.attempts) < 1:
            # (more than one attempt is behaviour, not drift: the checks judge it)
            return "client %s made no connection attempt at the simulated gateway for one connect(): it no longer " \
                   "connects through asyncio.open_connection / serial_asyncio.open_serial_connection" % kind
    return None


def seam_clock():
    """The decoder must read the wall clock through the name the harness replaces."""
    from sim import clock, bus
    from nmea2000.decoder import NMEA2000Decoder
    vc = bus.VClock(1000.0)
    bus.with_clock(vc)
    before = clock._reads[0]
    NMEA2000Decoder(build_network_map=True)
    if clock._reads[0] == before:
        return "constructing a decoder did not read the virtual wall clock (nmea2000.decoder.datetime is no longer the clock it uses)"
    return None


def seam_fs():
    from sim import fs as simfs
    from nmea2000.decoder import NMEA2000Decoder
    fsys = simfs.FakeFS()
    with simfs.installed(fsys):
        d = NMEA2000Decoder(dump_to_file="seam/check.jsonl")
        d.close()
    if "seam/check.jsonl" not in fsys.files:
        return "a decoder with dump_to_file did not open its file through the names open/os of nmea2000.decoder"
    return None
