"""C13 -- gateway clients recover from every connection fault and never stall the loop."""
from sim import net, traffic
from . import session
from .common import CLIENTS, REAL_NET, STUB_NET, ASSUME_NET, gen_config, viol

ID = "C13"
ENGINE = "netsim"
LEVEL = "exploration"
RUNS = {"quick": 30000, "thorough": 1200000}
BUDGET_S = {"quick": 45, "thorough": 480}
BATCH = 40
RECOVER_S = 120.0
CAP_S = 3600.0      # "capped" has no number in the statement: anything beyond an hour is taken as uncapped
RULE = ("one run = client type x a gateway script of 0-4 fault episodes (refuse/fail xk, then accept + traffic + "
        "EOF | EOF mid-packet | reset | accept-then-EOF | garbage-then-EOF | busy sentinel | failing write) followed by "
        "a healthy gateway sending tagged packets; x send()/redundant connect() operations x status callbacks that "
        "succeed, raise or are slow; a heartbeat task shares the loop.  Thorough adds sweeps that place a reset/EOF at "
        "every loop iteration between accept and steady state of sampled sessions.  Non-trivial = at least one fault "
        "fired AND at least one message was delivered.  Distinct = distinct sha256 of the event trace.")
REAL = REAL_NET
STUB = STUB_NET
ASSUMPTIONS = ASSUME_NET + ["back-off is measured at the gateway between consecutive failed attempts; 'capped' is judged as never above 3600 s, "
                            "'growing' as fifth delay >= 1.2 x first in a fresh episode, 'never zero' as >= 10 ms; liveness bound after the last fault: "
                            "max(120 virtual s, 3 x the longest wait the client made between attempts)",
                            "a write fault is modelled as the kernel refusing the bytes: connection_lost(exc) is scheduled, "
                            "drain() raises afterwards (StreamWriter.write itself never raises in asyncio)"]
SHRINK_PATHS = [("script",), ("ops",), ("script", "*", "stream"), ("script", "*", "chunks")]
EXHAUSTIVE = {"thorough": "fault (reset/EOF) at every loop iteration 0..60 after accept, for sampled base sessions per client type",
              "quick": "fault at every loop iteration 0..40 after accept for one base session per client type"}


def prime():
    from sim import catalog
    catalog.load()
    catalog.fixpoints()


def gen(rng, idx, tier):
    kind = CLIENTS[idx % 4]
    # settings that never suppress the tagged Vessel Heading packets, except network mapping (then the
    # delivery comparison is relaxed to "in order, no duplicates"; state and liveness are still judged)
    cfg = rng.choice([{}, {}, {}, {"exclude_pgns": [129029, "gnssPositionData"]}, {"preferred_units": {"ANGLE": "deg"}},
                      {"include_pgns": [127250, 60928]}, {"build_network_map": True}])
    script, info = session.gen_script(rng, kind)
    long_outage = rng.random() < 0.004
    if long_outage:
        # the gateway is away for hours ("retries for as long as needed"): > 1000 consecutive refusals, then healthy
        final = script[-1]
        script = [{"a": "refuse", "lat": 0.0} for _ in range(rng.choice([1040, 1100]))] + [final]
        info["write_fail_entries"] = []
    ops = [{"at": 0.0, "op": "connect", "id": 0}]
    oid = 1
    if rng.random() < 0.3:
        for _ in range(rng.randrange(1, 4)):
            ops.append({"at": rng.choice([0.0, 0.0, 0.3, 1.0, 5.0, 20.0]) + rng.random() * 0.01, "op": "connect", "id": oid})
            oid += 1
    if kind != "actisense":
        for si in info["write_fail_entries"]:
            for _ in range(2):
                ops.append({"on_accept": _attempt_index(script, si), "d": rng.choice([0.0, 0.01, 0.5, 1.5]), "op": "send",
                            "msg": session.sendable(rng, multi=True), "id": oid})
                oid += 1
        if rng.random() < 0.25:
            for _ in range(rng.randrange(1, 4)):
                ops.append({"at": rng.uniform(0, 30), "op": "send", "msg": session.sendable(rng), "id": oid})
                oid += 1
    status = session.cb_faults(rng, 40)
    recv = session.cb_faults(rng, 40, delays=(0.001, 0.1, 1.0)) if rng.random() < 0.3 else {"raise": [], "delay": {}}
    slack = sum(status["delay"].values()) + sum(recv["delay"].values())
    return {"client": kind, "config": cfg, "script": script, "ops": ops, "cb": {"status": status, "recv": recv},
            "knobs": {"min_end": 5.0, "tail": (RECOVER_S + 10.0) if not long_outage else 8000.0,      # long outage: follow waits of hours
                      "max_end": (3000.0 if not long_outage else 20000.0) + slack,
                      "hb": 1.0 if not long_outage else 10.0}}


def _attempt_index(script, si):
    return si       # one script entry is consumed per attempt


def sweeps(tier, seed):
    """Fault at every loop iteration after accept, on base sessions (complete sweep of that dimension)."""
    import random
    out = []
    n_base = 1 if tier == "quick" else 6
    span = 40 if tier == "quick" else 60
    for kind in CLIENTS:
        for b in range(n_base):
            rng = random.Random("%d:C13sweep:%s:%d" % (seed, kind, b))
            tags = list(range(3))
            segs = session.spaced_stream(rng, kind, tags)
            ftags = list(range(100, 104))
            fsegs = session.spaced_stream(rng, kind, ftags)
            for k in range(span):
                for fk in ("reset", "eof"):
                    e = {"a": "accept", "lat": 0.001, "stream": segs, "start": 0.0, "chunks": [len(s[1]) // 2 for s in segs],
                         "gaps": [0.0], "end": {"k": fk, "iter": k, "after": None, "d": 0.0}, "fault": fk + "@iter"}
                    f = {"a": "accept", "lat": 0.001, "stream": fsegs, "start": 0.01, "final": True,
                         "chunks": [len(s[1]) // 2 for s in fsegs], "gaps": [0.01]}
                    pre = [{"a": "refuse", "lat": 0.0}] if b % 2 else []
                    out.append({"client": kind, "config": {"build_network_map": True} if b % 3 == 2 else {},
                                "script": pre + [e, f], "ops": [{"at": 0.0, "op": "connect", "id": 0}],
                                "cb": {}, "knobs": {"min_end": 5.0, "tail": RECOVER_S + 10.0, "max_end": 3000.0, "hb": 1.0},
                                "_seed": k, "_idx": -1})
    return out


def execute(plan):
    o = net.run(plan)
    return evaluate(plan, o)


def evaluate(plan, o, prefix="C13"):
    kind = plan["client"]
    v = []
    sfx = "." + kind
    end_ev = len(o.trace)
    if o.crashed:
        v.append(viol(prefix + ".S6" + sfx, end_ev, "run ended abnormally: %s" % o.crashed))
    # ---- S6: never monopolises the loop ------------------------------------------------
    for it, vt, where in o.stalls:
        ev = next((e[0] for e in o.trace if e[2] >= it), end_ev)
        v.append(viol(prefix + ".S6" + sfx, ev, "a task made >50000 %s calls inside one event-loop iteration at t=%.3f "
                      "(busy loop that never yields)" % (where, vt)))
        break
    for vt, d in o.blocking:
        v.append(viol(prefix + ".S6" + sfx, end_ev, "blocking time.sleep(%r) at t=%.3f" % (d, vt)))
        break
    hb = (plan.get("knobs") or {}).get("hb", 1.0)
    expect = int(o.end_vt / hb)
    if not o.crashed and abs(o.hb - expect) > 1 + int(0.001 * expect):
        v.append(viol(prefix + ".S6" + sfx, end_ev, "heartbeat ticked %d times in %.1f virtual seconds (expected ~%d)" %
                      (o.hb, o.end_vt, expect)))
    # ---- S5: one receive path ----------------------------------------------------------------
    if o.reader_over:
        it, n = o.reader_over[0]
        ev = next((e[0] for e in o.trace if e[2] >= it), end_ev)
        v.append(viol(prefix + ".S5" + sfx, ev, "%d tasks were inside a StreamReader read at loop iteration %d" % (n, it)))
    # ---- S1: DISCONNECTED after every fault, none unexplained -----------------------------------
    conns = o.conns
    status = o.status
    closed_ev = o.close_started[0] if o.close_started else None
    for c in conns:
        f = c["fault"]
        if f is None:
            continue
        fev = f[0]
        if closed_ev is not None and closed_ev < fev:
            continue
        if c["closed_at"] is not None and _ev_at_or_before(o, c["closed_at"]) <= fev:
            continue
        if any(c2["id"] > c["id"] and _accept_ev(o, c2) < fev for c2 in conns):
            continue      # the client had already moved on to a newer connection (it gave this one up itself, e.g. after an
                          # over-long line): what the gateway does to the abandoned link afterwards is no fault of a session
        before = [s for s in status if s[0] < fev]
        after = [s for s in status if s[0] > fev]
        last = before[-1][3] if before else "DISCONNECTED"
        # was the CONNECTED notification for this connection still to come (slow callback / in-flight)?
        nxt = after[0][3] if after else None
        if last == "CONNECTED":
            if nxt is None:
                v.append(viol(prefix + ".S1" + sfx, fev, "%s on connection %d at t=%.3f was never followed by a DISCONNECTED "
                              "notification (state at end: %s)" % (f[2], c["id"], f[1], o.end_state)))
            elif nxt != "DISCONNECTED" and nxt != "CLOSED":
                v.append(viol(prefix + ".S1" + sfx, after[0][0], "after %s on connection %d the next notification was %s, "
                              "not DISCONNECTED" % (f[2], c["id"], nxt)))
    spurious = 0
    for i, s in enumerate(status):
        if s[3] != "DISCONNECTED":
            continue
        cur = [c for c in conns if _accept_ev(o, c) < s[0]]
        if not cur:
            # a refused or failing connect is a connection fault too: reporting it is what the statement asks for
            # (whether a notification without a state change is allowed is C14's question)
            continue
        c = cur[-1]
        overlong = any(sg[0] == "garbage" and len(sg[1]) > 2 * 65536 for sg in (c["entry"].get("stream") or []))
        explained = (c["fault"] is not None and c["fault"][0] < s[0]) or c["entry"].get("busy") or overlong
        if not explained:
            # not forbidden by the statement (an idle watchdog, a late report by the previous receive path ...): what
            # counts is that the client recovers again and keeps delivering, which S4 judges.  Counted only.
            spurious += 1
    # ---- S2: attempts only while DISCONNECTED -----------------------------------------------------
    for a in o.attempts:
        # (which states exist besides the three named ones - a CONNECTING state ... - is not fixed by the statement)
        if a["state"] == "CONNECTED":
            v.append(viol(prefix + ".S2" + sfx, a["ev"], "connection attempt #%d started while the client reported %s" %
                          (a["idx"], a["state"])))
            break
    # ---- S3: back-off ------------------------------------------------------------------------------
    # A run of consecutive failed attempts is a *fresh* recovery episode (growth is judged from its first
    # delay) when it starts the session or follows a CONNECTED notification; a connection the gateway
    # accepted but the client abandoned inside its own connect step continues the previous episode.
    delays = []
    prev = None
    fresh = True
    sdelay = ((plan.get("cb") or {}).get("status") or {}).get("delay") or {}
    slow = [(s[1], s[1] + sdelay[str(i)]) for i, s in enumerate(status) if str(i) in sdelay]
    for a in o.attempts:
        if prev is not None and prev["result"] in ("refused", "failed"):
            # a slow status callback running between two attempts lengthens the wait seen at the gateway
            stretched = any(b0 < a["start"] and b1 > prev["end"] for b0, b1 in slow)
            delays.append((a["start"] - prev["end"], a["ev"], stretched))
        else:
            _check_backoff(delays, v, prefix, sfx, fresh)
            delays = []
            if prev is None:
                fresh = True
            else:
                fresh = any(s[3] == "CONNECTED" and prev["ev"] < s[0] < a["ev"] for s in status)
        prev = a
    _check_backoff(delays, v, prefix, sfx, fresh)
    connect_called = any(op["op"] == "connect" for op in o.ops)
    if o.close_started is None and connect_called:
        # ---- S4: bounded liveness once faults stop -------------------------------------------------
        script = plan.get("script") or []
        t_healthy = 0.0
        for a in o.attempts:
            if a["result"] in ("refused", "failed"):
                t_healthy = max(t_healthy, a["end"] or a["start"])
        for c in conns:
            if c["fault"] is not None:
                t_healthy = max(t_healthy, c["fault"][1])
            if c["entry"].get("busy"):
                t_healthy = max(t_healthy, c["at"])
        unconsumed_faulty = [e for e in script[len(o.attempts):] if e.get("a") != "accept" or e.get("end") or e.get("busy")]
        # the bound follows the back-off the client actually uses (the statement gives no number): three times the
        # longest wait seen between attempts, at least RECOVER_S
        waits = [b["start"] - a["end"] for a, b in zip(o.attempts, o.attempts[1:]) if a["end"] is not None and a["result"] in ("refused", "failed")]
        deadline = t_healthy + max(RECOVER_S, 3.0 * max(waits, default=0.0))
        if o.end_vt >= deadline and not o.crashed:
            # Judged on how long the client has been away from CONNECTED at the end of the run, not on the instant the
            # run happens to end: a client that hangs up on its own (idle watchdog) and dials again at once is in
            # DISCONNECTED for a moment every now and then, which the statement allows.
            bound = deadline - t_healthy
            t_state = max(o.samples[-1][1] if o.samples else 0.0, t_healthy)
            t_note = max(status[-1][1] if status else 0.0, t_healthy)
            last = conns[-1] if conns else None
            if o.end_state != "CONNECTED" and o.end_vt - t_state >= bound:
                why = "no connection was ever accepted" if last is None else (
                    "the last connection (%d) %s" % (last["id"], ("had " + last["fault"][2]) if last["fault"] else
                                                     ("was answered with a busy sentinel" if last["entry"].get("busy") else
                                                      ("had been closed by the client" if last["closed_at"] is not None else "is open"))))
                v.append(viol(prefix + ".S4" + sfx, end_ev, "not recovered: client.state has been %s for %.0f virtual s at the end of the run "
                              "(t=%.3f) although the last fault was at t=%.3f; %s; %d attempts, %d unconsumed faulty script entries" %
                              (o.end_state, o.end_vt - t_state, o.end_vt, t_healthy, why, len(o.attempts), len(unconsumed_faulty))))
            elif (not status or status[-1][3] != "CONNECTED") and o.end_vt - t_note >= bound:
                v.append(viol(prefix + ".S4" + sfx, end_ev, "last status notification is %s (t=%.3f), not CONNECTED, %.0f virtual s later "
                              "and after the last fault (t=%.3f)" % (status[-1][3] if status else None, t_note, o.end_vt - t_note, t_healthy)))
        # ---- delivery: in order, once; complete on the recovered connection ---------------------------
        all_sent = []
        for c in conns:
            all_sent.extend(_complete_tags(c))
        # the deliberately truncated packet of the *_mid faults: a text client may legitimately decode the
        # shortened line it received before the end of stream, so such a message is not judged
        partial = [bytes.fromhex(sg[1]).decode("latin-1") for c in conns for sg in (c["entry"].get("stream") or [])
                   if sg[0] == "partial"]
        def from_partial(m):
            raw = m.raw_can_data
            if isinstance(raw, str):
                return any(p.startswith(raw) for p in partial)
            if kind == "actisense" and isinstance(raw, (bytes, bytearray)):     # raw = the payload bytes of the line
                return any(p.split()[-1].upper().startswith(bytes(raw).hex().upper()) for p in partial if p.split())
            return False
        got_ev = [(traffic.tag_of(r[3]), r[0]) for r in o.recv if not from_partial(r[3])]
        got = [g for g, _ in got_ev if g is not None]
        if not _is_subsequence(got, all_sent):
            v.append(viol(prefix + ".S4" + sfx, got_ev[0][1] if got_ev else end_ev,
                          "delivered tags %s are not an in-order, duplicate-free selection of the sent tags %s" %
                          (got, all_sent)))
        elif not (plan.get("config") or {}).get("build_network_map") and any(
                c["fault"] is not None and c["fault"][2] == "eof" and not c["entry"].get("busy") and
                [t for t in _complete_tags(c) if t not in got] for c in conns[:-1] if c["closed_at"] is None or True):
            # an end of stream (unlike a reset) loses nothing that was already sent: every packet the gateway delivered
            # completely before it must still reach the callback, whatever the callbacks' pace
            c = next(c for c in conns[:-1] if c["fault"] is not None and c["fault"][2] == "eof" and not c["entry"].get("busy")
                     and [t for t in _complete_tags(c) if t not in got])
            if o.end_vt >= c["fault"][1] + 10 + _slack(plan) and not any(
                    sg[0] == "garbage" and len(sg[1]) > 2 * 65536 for sg in (c["entry"].get("stream") or [])):
                v.append(viol(prefix + ".S4" + sfx, c["fault"][0], "connection %d ended with end of stream after the gateway had sent tags %s "
                              "completely; %s never reached the receive callback (received: %s)" %
                              (c["id"], _complete_tags(c), [t for t in _complete_tags(c) if t not in got], got)))
        if conns and not (plan.get("config") or {}).get("build_network_map") and not v:
            c = conns[-1]
            if c["fault"] is None and not c["entry"].get("busy") and c["closed_at"] is None \
                    and o.end_vt >= c.get("last_chunk_at", 0) + 10 + _slack(plan):
                sent = _complete_tags(c)
                missing = [t for t in sent if t not in got]
                if missing:
                    v.append(viol(prefix + ".S4" + sfx, end_ev, "after recovery the gateway sent tags %s on connection %d but "
                                  "%s never reached the receive callback (received: %s)" % (sent, c["id"], missing, got)))
    st = dict(o.fired)
    st["client_" + kind] = 1
    st["messages_delivered"] = len(o.recv)
    st["attempts"] = len(o.attempts)
    if spurious:
        st["disconnect_reports_without_injected_fault(not judged)"] = spurious
    if any(len(d) >= 0 for d in ()):
        pass
    run = 0
    for a in o.attempts:
        if a["result"] in ("refused", "failed"):
            run += 1
            if run == 6:
                st["backoff_reached_cap(>=6 consecutive failures)"] = st.get("backoff_reached_cap(>=6 consecutive failures)", 0) + 1
        else:
            run = 0
    if len(o.attempts) > 1000:
        st["long_outage(>1000 consecutive refusals)"] = 1
    nfaults = sum(1 for c in conns if c["fault"] is not None) + sum(1 for a in o.attempts if a["result"] != "accepted")
    return {"violations": v, "digest": o.digest, "stats": st, "nontrivial": nfaults > 0 and len(o.recv) > 0,
            "vtime": o.end_vt}


def _slack(plan):
    cb = plan.get("cb") or {}
    return sum(((cb.get("status") or {}).get("delay") or {}).values()) + sum(((cb.get("recv") or {}).get("delay") or {}).values())


def _check_backoff(delays, v, prefix, sfx, fresh=True):
    if not delays:
        return
    ds = [d[0] for d in delays]
    for d, ev, _ in delays:
        if d < 0.01:
            v.append(viol(prefix + ".S3" + sfx, ev, "retry %.6f s after a failed attempt: the delay between attempts must never be (practically) "
                          "zero (delays: %s)" % (d, _fmt(ds))))
            return
        if d > CAP_S:
            v.append(viol(prefix + ".S3" + sfx, ev, "retry delay %.1f s: the delay is not capped (more than %d s; delays: %s)" % (d, CAP_S, _fmt(ds))))
            return
    if fresh and len(ds) >= 5 and ds[4] < 1.2 * ds[0] and not any(d[2] for d in delays[:5]):
        v.append(viol(prefix + ".S3" + sfx, delays[4][1], "retry delay does not grow: %s" % _fmt(ds)))


def _fmt(ds):
    return "[" + ", ".join("%.3f" % d for d in ds[:10]) + "]"


def _accept_ev(o, c):
    return o.attempts[c["attempt"]]["ev"]


def _ev_at_or_before(o, vt_iter):
    vt, it = vt_iter
    ev = 0
    for e in o.trace:
        if e[2] <= it:
            ev = e[0]
        else:
            break
    return ev


def _complete_tags(c):
    segs = c["entry"].get("stream") or []
    d = c["delivered"] - (13 if c["entry"].get("busy") else 0)
    out = []
    pos = 0
    for kind_, hx in segs:
        pos += len(hx) // 2
        if pos > d:
            break
        if kind_ == "pkt":
            out.append(_tag_from_hex(hx))
    return out


def _tag_from_hex(hx):
    b = bytes.fromhex(hx)
    if len(b) == 13:
        return b[5]
    if len(b) == 20 and b[:2] == b"\xaa\x55":
        return b[10]
    s = b.decode()
    if s.startswith("A"):
        return int(s.split()[3][:2], 16)
    return int(s.split()[3], 16)


def _is_subsequence(got, sent):
    if len(set(got)) != len(got):
        return False
    i = 0
    for g in got:
        while i < len(sent) and sent[i] != g:
            i += 1
        if i == len(sent):
            return False
        i += 1
    return True


def simplify(plan):
    cb = plan.get("cb") or {}
    if any((cb.get(k) or {}).get("raise") or (cb.get(k) or {}).get("delay") for k in ("status", "recv")):
        p = dict(plan)
        p["cb"] = {}
        yield p
    if plan.get("config"):
        p = dict(plan)
        p["config"] = {}
        yield p
    for i, e in enumerate(plan.get("script") or []):
        if e.get("lat"):
            p = dict(plan)
            p["script"] = list(plan["script"])
            e2 = dict(e)
            e2["lat"] = 0.0
            p["script"][i] = e2
            yield p


def describe(plan):
    return {"client": plan["client"], "config": plan.get("config"),
            "script": [{k: (v if k not in ("stream", "chunks", "gaps") else len(v)) for k, v in e.items()} for e in plan["script"]][:12],
            "ops": [{k: (v if k != "msg" else "<message json>") for k, v in op.items()} for op in plan.get("ops", [])][:8],
            "status_callback": plan.get("cb", {}).get("status")}


def seam_check():
    from .common import seam_net, seam_clock, seam_fs
    return seam_net()
