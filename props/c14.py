"""C14 -- close() is final and status notifications are faithful."""
import copy
import random

from sim import net, msgs
from . import session
from .common import CLIENTS, REAL_NET, STUB_NET, ASSUME_NET, viol

ID = "C14"
ENGINE = "netsim"
LEVEL = "exploration"
RUNS = {"quick": 30000, "thorough": 1200000}
BUDGET_S = {"quick": 45, "thorough": 480}
BATCH = 40
AFTER_CLOSE_S = 120.0
RULE = ("one run = client type x session shape (healthy / refusing / slow-to-accept gateway, traffic, faults, sends) x "
        "close() injected at an arbitrary loop iteration or virtual time (before connect, while connect awaits the "
        "transport, during back-off, connected idle, mid-packet, during a callback, during a send, right after a "
        "fault) x connect()/send() before and after close x status callbacks that succeed, raise or are slow.  "
        "Sweeps place close() at every loop iteration of base sessions.  Non-trivial = close() ran while the client "
        "had an attempt in flight, a back-off wait pending, a callback running or a connection established.  "
        "Distinct = distinct sha256 of the event trace.")
REAL = REAL_NET
STUB = STUB_NET
ASSUMPTIONS = ASSUME_NET + ["state is sampled once per event-loop iteration through the public `state` property",
                            "an attempt already in flight when close() starts may complete, provided the client shuts "
                            "it within 5 virtual seconds plus whatever the gateway stalls its writes by flow control (a serial client first drains its configuration packet) and never reports CONNECTED",
                            "'background tasks finish' has no deadline: after the run the simulation continues (heartbeat "
                            "stopped) until all tasks of the client are done or no timer, simulator event or ready callback "
                            "is left; only tasks pending then (or 2 virtual hours later) are reported"]
SHRINK_PATHS = [("script",), ("ops",), ("script", "*", "stream"), ("script", "*", "chunks")]
EXHAUSTIVE = {"quick": "close() at every loop iteration of 1 base session per client type",
              "thorough": "close() at every loop iteration of 8 base sessions per client type"}


def prime():
    from sim import catalog
    catalog.load()
    catalog.fixpoints()


def _base(rng, kind):
    script, info = session.gen_script(rng, kind, n_episodes=rng.choice([0, 0, 1, 1, 2]), final_packets=rng.randrange(2, 8))
    # slow-to-accept gateways make "close while connect awaits the transport" likely
    if rng.random() < 0.5:
        for e in script:
            e["lat"] = rng.choice([0.05, 0.5, 2.0])
    cfg = rng.choice([{}, {}, {"build_network_map": True}, {"exclude_pgns": [129029]}])
    status = session.cb_faults(rng, 30)
    if rng.random() < 0.15:
        status["plain_callable"] = True
        status["sync_raise"] = [i for i in range(12) if rng.random() < 0.4]
    recv = session.cb_faults(rng, 30, p_raise=rng.choice([0, 0.2]), p_delay=rng.choice([0, 0.5, 0.9]), delays=(0.01, 0.3, 2.0))
    return {"client": kind, "config": cfg, "script": script, "cb": {"status": status, "recv": recv},
            "knobs": {"min_end": 2.0, "tail": AFTER_CLOSE_S + 5.0, "max_end": 3000.0, "hb": 1.0}}


def gen(rng, idx, tier):
    kind = CLIENTS[idx % 4]
    plan = _base(rng, kind)
    ops = []
    oid = 0
    shape = rng.random()
    if shape < 0.08:
        pass                                    # close before any connect
    else:
        ops.append({"at": 0.0, "op": "connect", "id": oid})
        oid += 1
    # estimated active span of the session (latencies + back-off), for time-based placement
    span = 0.2
    fails = 0
    for e in plan["script"]:
        span += e.get("lat", 0.0)
        if e["a"] != "accept":
            fails += 1
            span += min(10.0, 0.5 * 2 ** (fails - 1))
        else:
            fails = 0
            span += 0.5
    k = rng.random()
    if k < 0.45:
        close = {"iter": rng.randrange(0, 160), "op": "close", "id": oid}
    elif k < 0.9:
        close = {"at": rng.uniform(0, span), "op": "close", "id": oid}
    else:
        close = {"at": rng.choice([0.0, 1e-6, span + 1.0, span + 40.0]), "op": "close", "id": oid}
    ops.append(close)
    oid += 1
    if kind != "actisense" and rng.random() < 0.4:
        for _ in range(rng.randrange(1, 3)):
            ops.append({"at": rng.uniform(0, span), "op": "send", "msg": session.sendable(rng), "id": oid})
            oid += 1
    if rng.random() < 0.5:
        for _ in range(rng.randrange(1, 3)):
            # connect() / send() racing with or following close()
            base = close.get("at", span * rng.random())
            ops.append({"at": max(0.0, base + rng.choice([-0.01, 0.0, 1e-6, 0.001, 0.02, 1.0, 30.0])),
                        "op": rng.choice(["connect", "connect", "send"]) if kind != "actisense" else "connect",
                        "msg": session.sendable(rng), "id": oid})
            oid += 1
    if rng.random() < 0.1:
        ops.append({"at": close.get("at", span) + rng.choice([0.0, 0.005, 1.0]), "op": "close", "id": oid})
        oid += 1
    if kind != "actisense" and rng.random() < 0.12:
        # close() while a multi-frame send() is suspended in drain() by flow control
        ai = max(i for i, e in enumerate(plan["script"]) if e["a"] == "accept")
        e = plan["script"][ai]
        e.setdefault("w", {})["pause"] = {str(i): rng.choice([0.05, 0.5]) for i in range(0, 12)}
        e["w"].pop("fail_at", None)
        d0 = rng.choice([0.2, 1.0])
        ops = [o for o in ops if o["op"] != "close"]
        ops.append({"on_accept": ai, "d": d0, "op": "send", "msg": session.sendable(rng, multi=True), "id": oid})
        ops.append({"on_accept": ai, "d": d0 + rng.choice([0.0, 0.001, 0.06, 0.3]), "op": "close", "id": oid + 1})
        oid += 2
    if rng.random() < 0.08:
        # close() while the very first write on the new link is stalled by flow control (for the serial client that is the
        # configuration packet written inside connect(): the link exists, connect() has not returned yet)
        ai = max(i for i, e in enumerate(plan["script"]) if e["a"] == "accept")
        e = plan["script"][ai]
        e.setdefault("w", {})["pause"] = {"0": rng.choice([0.5, 3.0, 20.0])}
        e["w"].pop("fail_at", None)
        ops = [o for o in ops if o["op"] != "close"]
        ops.append({"on_accept": ai, "d": rng.choice([0.0, 0.001, 0.01, 0.2]), "op": "close", "id": oid})
        oid += 1
    if rng.random() < 0.08:
        # close() awaited from inside a callback (the caller is then one of the client's own tasks)
        ops = [o for o in ops if o["op"] != "close"]
        if rng.random() < 0.7:
            plan["cb"]["recv"]["close_at"] = rng.choice([0, 0, 1, 2, 4])
        else:
            plan["cb"]["status"]["close_at"] = rng.choice([0, 1, 2])
    plan["ops"] = ops
    ca = plan["cb"]["status"].get("close_at")
    if ca is not None and plan["cb"]["status"].get("sync_raise"):
        plan["cb"]["status"]["sync_raise"] = [i for i in plan["cb"]["status"]["sync_raise"] if i != ca]
    return plan


def sweeps(tier, seed):
    out = []
    n_base = 1 if tier == "quick" else 8
    for kind in CLIENTS:
        for b in range(n_base):
            rng = random.Random("%d:C14sweep:%s:%d" % (seed, kind, b))
            plan = _base(rng, kind)
            plan["cb"]["status"]["raise"] = []          # K6's double execution is covered by the seeded runs
            plan["ops"] = [{"at": 0.0, "op": "connect", "id": 0}]
            probe = copy.deepcopy(plan)
            probe["knobs"] = dict(probe["knobs"], tail=3.0, min_end=1.0)
            o = net.run(probe)
            # iterations while anything planned was still happening
            last_iter = max([e[2] for e in o.trace if e[3] != "sim"] or [10])
            n = min(last_iter + 5, 400)
            for k in range(0, n):
                p = copy.deepcopy(plan)
                p["ops"].append({"iter": k, "op": "close", "id": 1})
                p["_seed"] = k
                p["_idx"] = -1
                out.append(p)
    return out


def execute(plan):
    o = net.run(plan)
    v, st, nontrivial = evaluate(plan, o)
    status_cfg = (plan.get("cb") or {}).get("status") or {}
    if (status_cfg.get("raise") or status_cfg.get("sync_raise")) and not v:
        # K6: an exception raised by the status callback does not affect the client
        p2 = copy.deepcopy(plan)
        p2["cb"]["status"]["raise"] = []
        for i in p2["cb"]["status"].get("sync_raise") or []:
            (p2["cb"]["status"].get("delay") or {}).pop(str(i), None)     # a call that failed at once did not wait either
        p2["cb"]["status"]["sync_raise"] = []
        o2 = net.run(p2)
        a = _externals(o)
        b = _externals(o2)
        if a != b:
            what = next((k for k in a if a[k] != b[k]), "?")
            v.append(viol("C14.K6." + plan["client"], len(o.trace), "the same session with a non-raising status callback "
                          "behaves differently (%s): raising=%r silent=%r" % (what, _short(a[what]), _short(b[what]))))
        st["K6_double_executions"] = 1
    return {"violations": v, "digest": o.digest, "stats": st, "nontrivial": nontrivial, "vtime": o.end_vt}


def _short(x):
    s = repr(x)
    return s if len(s) < 300 else s[:300] + "..."


def _externals(o):
    return {"status": [s[3] for s in o.status],
            "status_times": [round(s[1], 9) for s in o.status],
            "attempts": [(round(a["start"], 9), a["result"]) for a in o.attempts],
            "written": [[(round(w[0], 9), w[2].hex()) for w in c["written"]] for c in o.conns],
            "closed": [c["closed_at"] is not None for c in o.conns],
            "delivered": [msgs.key(r[3], raw=True) for r in o.recv],
            "end_state": o.end_state}


def evaluate(plan, o):
    kind = plan["client"]
    sfx = "." + kind
    v = []
    end_ev = len(o.trace)
    st = dict(o.fired)
    st["client_" + kind] = 1
    closes = [op for op in o.ops if op["op"] == "close"]
    nontrivial = False
    if o.crashed:
        v.append(viol("C14.K4" + sfx, end_ev, "run ended abnormally: %s" % o.crashed))
    if o.stalls:
        v.append(viol("C14.K4" + sfx, end_ev, "busy loop: %r" % (o.stalls[0],)))
    status = o.status
    names = [s[3] for s in status]
    # ---- K5: faithful notifications (also judged when close() never ran) ------------------------------
    for i in range(1, len(names)):
        if names[i] == names[i - 1]:
            v.append(viol("C14.K5" + sfx, status[i][0], "status callback invoked twice in a row with %s (sequence %s)" %
                          (names[i], names)))
            break
    if "CLOSED" in names and names.index("CLOSED") != len(names) - 1:
        i = names.index("CLOSED")
        v.append(viol("C14.K5" + sfx, status[i + 1][0], "status notification %s after CLOSED (sequence %s)" % (names[i + 1], names)))
    sampled = [s[2] for s in o.samples]
    notified = ["DISCONNECTED"] + names
    if not _subseq(sampled, notified):
        v.append(viol("C14.K5" + sfx, end_ev, "state changes observed through client.state %s are not a subsequence of the "
                      "notified changes %s (a change was not reported, or reported out of order)" % (sampled, notified)))
    elif o.end_state is not None and notified[-1] != o.end_state:
        v.append(viol("C14.K5" + sfx, end_ev, "final state is %s but the last notification was %s" % (o.end_state, notified[-1])))
    if not closes or o.close_started is None:
        return v, st, nontrivial
    cev, cvt, cit = o.close_started
    first_close = closes[0]
    st["close_started"] = 1
    # what was going on when close() started (reach probes)
    inflight = [a for a in o.attempts if a["ev"] < cev and (a["end"] is None or a["end"] > cvt)]
    if inflight:
        st["close_during_connect_await"] = 1
        nontrivial = True
    if any(a["ev"] < cev and a["result"] in ("refused", "failed") and a["end"] <= cvt and
           not any(b["idx"] == a["idx"] + 1 and b["ev"] < cev for b in o.attempts) for a in o.attempts):
        st["close_during_backoff_wait"] = 1
        nontrivial = True
    if any(r[0] < cev and not any(x[0] == i and x[1] <= cvt for x in o.recv_exit) for i, r in enumerate(o.recv)):
        st["close_during_receive_callback"] = 1
        nontrivial = True
    if any(op["op"] == "send" and op["start_ev"] < cev and (op["end"] is None or op["end"] > cvt) for op in o.ops):
        st["close_during_send"] = 1
        nontrivial = True
    if first_close["state_before"] == "CONNECTED":
        st["close_while_connected"] = 1
        nontrivial = True
    if any(c["fault"] is not None and 0 <= cvt - c["fault"][1] < 0.01 for c in o.conns):
        st["close_right_after_fault"] = 1
    # ---- K1: CLOSED forever ---------------------------------------------------------------------------
    for it, vt, s in o.samples:
        if it > cit + 1 and s != "CLOSED":
            ev = next((e[0] for e in o.trace if e[2] >= it), end_ev)
            v.append(viol("C14.K1" + sfx, ev, "client.state is %s at loop iteration %d (t=%.6f) although close() started at "
                          "iteration %d (t=%.6f)" % (s, it, vt, cit, cvt)))
            break
    if o.end_state != "CLOSED":
        v.append(viol("C14.K1" + sfx, end_ev, "client.state is %s at the end of the run, close() started at t=%.6f" %
                      (o.end_state, cvt)))
    # ---- K2: no new attempt after close; an in-flight one is shut, never reported -----------------------
    for a in o.attempts:
        if a["ev"] > cev:
            v.append(viol("C14.K2" + sfx, a["ev"], "connection attempt #%d initiated at t=%.6f, after close() started at t=%.6f" %
                          (a["idx"], a["start"], cvt)))
            break
    for c in o.conns:
        if c["at"] > cvt or (c["at"] == cvt and o.attempts[c["attempt"]]["ev"] < cev < _accept_trace_ev(o, c)):
            if c["fault"] is not None and c["fault"][2] in ("reset", "write_fail") and c["fault"][1] <= c["at"] + 5.0:
                continue          # the peer tore it down itself: nothing is left to shut
            if c["closed_at"] is None:
                v.append(viol("C14.K2" + sfx, _accept_trace_ev(o, c), "connection %d was established at t=%.6f after close() "
                              "started (attempt was in flight) and the client never shut it" % (c["id"], c["at"])))
            elif c["closed_at"][0] - c["at"] > 5.0 + sum((((c["entry"].get("w") or {}).get("pause")) or {}).values()):
                # (a serial client drains its configuration packet before its connect step returns: a write the gateway
                # stalls by flow control delays the shutdown by as much)
                v.append(viol("C14.K2" + sfx, _accept_trace_ev(o, c), "connection %d established after close() was shut only "
                              "%.3f s later" % (c["id"], c["closed_at"][0] - c["at"])))
    done_closes = [op for op in closes if op["end"] is not None]
    if not done_closes:
        v.append(viol("C14.K4" + sfx, end_ev, "close() started at t=%.6f never returned (run ended at t=%.3f)" % (cvt, o.end_vt)))
        return v, st, nontrivial
    # whichever close() call returned first: from that instant on the promises of "after close() returns" hold
    ret = min(done_closes, key=lambda op: (op["end"], op["end_iter"]))
    rvt = ret["end"]
    rev = next((e[0] for e in o.trace if e[3] == "op" and e[4] == "close.end" and e[5][0] == ret["id"]), end_ev)
    # ---- K3: after close() returned -------------------------------------------------------------------------
    for r in o.recv:
        if r[0] > rev:
            v.append(viol("C14.K3" + sfx, r[0], "receive callback entered at t=%.6f, after close() returned at t=%.6f" % (r[1], rvt)))
            break
    for i, xvt in o.recv_exit:
        if xvt > rvt + 1e-9:
            v.append(viol("C14.K3" + sfx, rev, "receive callback #%d was still running at t=%.6f, after close() returned at t=%.6f" % (i, xvt, rvt)))
            break
    # (a connection whose attempt was still in flight when close() started is K2's business)
    est = [c for c in o.conns if _accept_trace_ev(o, c) < cev]
    if est:
        c = est[-1]
        if c["fault"] is not None and c["fault"][2] in ("reset", "write_fail") and c["closed_at"] is None:
            pass          # the peer tore this link down itself: nothing is left to shut
        elif c["closed_at"] is None:
            v.append(viol("C14.K3" + sfx, rev, "close() returned at t=%.6f but the link (connection %d) was never shut" %
                          (rvt, c["id"])))
        elif c["closed_at"][0] > rvt + 1.0:
            v.append(viol("C14.K3" + sfx, rev, "link (connection %d) shut %.3f s after close() returned" %
                          (c["id"], c["closed_at"][0] - rvt)))
    for c in o.conns:
        if c["at"] >= cvt:
            continue      # an attempt that was in flight: K2 demands it is shut within 1 s (a serial client may
                          # already have written its configuration packet while establishing it)
        late = [w for w in c["written"] if w[0] > rvt]
        if late:
            v.append(viol("C14.K3" + sfx, rev, "gateway received %d byte(s) on connection %d at t=%.6f, after close() returned "
                          "at t=%.6f" % (len(late[0][2]), c["id"], late[0][0], rvt)))
            break
    # ---- K4: background tasks finish ----------------------------------------------------------------------------
    # "finish" carries no deadline in the statement (a connect() parked in its back-off wait ends when the wait does,
    # however long the maintainer makes it): the simulation is continued after the end of the run until every task
    # of the client is done or nothing is left that could wake one - those never finish.
    if o.never_finished and not o.crashed:
        v.append(viol("C14.K4" + sfx, end_ev, "%d task(s) created by the client never finish after close() returned at t=%.3f "
                      "(simulation continued to t=%.1f, %s): %s" %
                      (len(o.never_finished), rvt, o.drain_end_vt,
                       "nothing left that could wake them" if o.drain_end_vt < o.end_vt + 7200.0 else "still pending 2 virtual hours later",
                       o.never_finished[:4])))
    if o.never_finished is not None:
        st["K4_judged"] = 1
        if o.drain_end_vt is not None:
            st["K4_tasks_outlived_the_run(drained)"] = 1
    return v, st, nontrivial


def _accept_trace_ev(o, c):
    for e in o.trace:
        if e[3] == "gw" and e[4] == "accepted" and e[5][1] == c["id"]:
            return e[0]
    return len(o.trace)


def _subseq(a, b):
    i = 0
    for x in a:
        while i < len(b) and b[i] != x:
            i += 1
        if i == len(b):
            return False
        i += 1
    return True


def simplify(plan):
    cb = plan.get("cb") or {}
    if any((cb.get(k) or {}).get("raise") or (cb.get(k) or {}).get("delay") for k in ("status", "recv")):
        p = dict(plan)
        p["cb"] = {"status": {"raise": [], "delay": {}}, "recv": {"raise": [], "delay": {}}}
        yield p
    if plan.get("config"):
        p = dict(plan)
        p["config"] = {}
        yield p


def describe(plan):
    return {"client": plan["client"], "config": plan.get("config"),
            "script": [{k: (v if k not in ("stream", "chunks", "gaps") else len(v)) for k, v in e.items()} for e in plan["script"]][:10],
            "ops": [{k: (v if k != "msg" else "<message json>") for k, v in op.items()} for op in plan.get("ops", [])][:8],
            "callbacks": {k: {"raise": (c or {}).get("raise", [])[:8], "delays": len((c or {}).get("delay", {}))}
                          for k, c in (plan.get("cb") or {}).items()}}


def seam_check():
    from .common import seam_net, seam_clock, seam_fs
    return seam_net()
