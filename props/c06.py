"""C06 -- every gateway wire format round-trips and obeys its fixed framing."""
import json
import random

from sim import loopback, net, n2k, msgs, catalog, traffic
from .common import CLIENTS, REAL_NET, STUB_NET, ASSUME_NET, viol

ID = "C06"
ENGINE = "netsim"
LEVEL = "exploration"
RUNS = {"quick": 24000, "thorough": 600000}
BUDGET_S = {"quick": 45, "thorough": 480}
BATCH = 40
RULE = ("loop-back run = client type x 1-12 encodable messages (all 262 encodable definitions, codec fix-points only, "
        "biased to payloads shorter than 8 bytes and fast-packet messages with a short last frame; random source, "
        "priority and, for addressed PGNs, destination) sent with the real send() x a re-segmentation of the forwarded "
        "byte stream into reads.  Corruption sweep = for a sampled encoder-produced USB packet, all 18 checked byte "
        "positions x all 255 non-zero XOR masks, one at a time, inside a stream of good packets (complete sweep of that "
        "dimension).  Non-trivial = at least one message with a payload/last frame shorter than 8 bytes or a "
        "multi-frame message, delivered through a stream cut inside a packet.  Distinct = distinct sha256 of the trace.")
REAL = REAL_NET + ["NMEA2000Encoder.encode_ebyte / encode_usb / encode_yacht_devices / encode_actisense through send()"]
STUB = STUB_NET + ["forwarding gateway (binary: byte for byte; Yacht Devices: echoes each transmitted line in receive "
                   "form with the time/direction token; Actisense: prepends the time token, appends CR LF)"]
ASSUMPTIONS = ASSUME_NET + ["only codec fix-points (decode(encode(m)) == m without any wire) are sent, so value-level codec "
                            "defects (C02/C09) are not attributed to the wire format",
                            "canonical addressing: destination 255 for broadcast (PDU2) PGNs"]
SHRINK_PATHS = [("messages",), ("chunks",)]
EXHAUSTIVE = {"quick": "USB checksum: 18 positions x 255 masks for 3 sampled packets (13770 corruptions)",
              "thorough": "USB checksum: 18 positions x 255 masks for 120 sampled packets"}

_pool = None


def prime():
    global _pool
    catalog.load()
    fx = catalog.fixpoints()
    short = [f for f in fx if not f["fast"] and len(f["payload"]) < 16]
    fast_short_last = [f for f in fx if f["fast"] and ((len(f["payload"]) // 2 - 6) % 7 != 0 or len(f["payload"]) // 2 < 6)]
    _pool = (fx, short, fast_short_last)


def _addressed(rng, f):
    d = json.loads(f["json"])
    d["source"] = rng.randrange(0, 254)
    d["priority"] = rng.randrange(0, 8)
    pf = (d["PGN"] >> 8) & 0xFF
    d["destination"] = rng.choice([255, rng.randrange(0, 255)]) if pf < 240 else 255
    d["raw_can_data"] = None
    return {"json": json.dumps(d), "pgn": d["PGN"], "src": d["source"], "dst": d["destination"], "prio": d["priority"],
            "payload": f["payload"], "fast": f["fast"], "id": f["id"]}


def gen(rng, idx, tier):
    fx, short, fsl = _pool
    kind = CLIENTS[idx % 4]
    n = rng.choice([1, 2, 4, 8, 12])
    out = []
    if rng.random() < 0.06 and kind != "actisense":
        # eight talkers taking turns with fast-packet messages on one long-lived encoder/decoder pair: every stream comes
        # back exactly when the sender's shared 3-bit counter has wrapped
        fasts = [f for f in fx if f["fast"]]
        talkers = [_addressed(rng, rng.choice(fasts)) for _ in range(8)]
        for i in range(rng.choice([17, 24])):
            out.append(dict(talkers[i % 8]))
        n = 0
    for _ in range(n):
        k = rng.random()
        pool = short if (k < 0.25 and short) else (fsl if k < 0.5 and fsl else fx)
        out.append(_addressed(rng, rng.choice(pool)))
    sizes = []
    mode = rng.choice(["all", "onebyte", "uniform", "uniform", "packet", "aimed"])
    if mode == "onebyte":
        sizes = [1] * 3000
    elif mode == "uniform":
        hi = rng.choice([2, 5, 13, 20, 50, 200])
        sizes = [rng.randrange(1, hi + 1) for _ in range(1500)]
    elif mode == "packet":
        unit = {"ebyte": 13, "waveshare": 20}.get(kind, 30)
        sizes = [unit * rng.choice([1, 1, 2, 3]) for _ in range(400)]
    elif mode == "aimed":
        unit = {"ebyte": 13, "waveshare": 20}.get(kind, 30)
        sizes = []
        for _ in range(600):
            a = rng.randrange(1, unit)
            sizes += [a, unit - a]
    gaps = [rng.choice([0.0, 1e-5, 1e-3]) for _ in range(rng.randrange(1, 5))]
    return {"client": kind, "messages": out, "chunks": sizes, "gaps": gaps, "mode": mode}


def sweeps(tier, seed):
    """USB corruption: for sampled encoder-produced packets, every position x every mask."""
    from nmea2000.encoder import NMEA2000Encoder
    from nmea2000.message import NMEA2000Message
    fx, short, fsl = _pool
    rng = random.Random("%d:C06sweep" % seed)
    n_samples = 3 if tier == "quick" else 120
    enc = NMEA2000Encoder()
    plans = []
    for s in range(n_samples):
        f = _addressed(rng, rng.choice(fx if s % 2 else (short or fx)))
        try:
            pk = enc.encode_usb(NMEA2000Message.from_json(f["json"]))
        except Exception:
            continue
        p = bytes(rng.choice(pk))
        if len(p) != 20:
            continue          # a framing defect; the loop-back runs report it
        for pos in range(2, 20):
            segs = []
            tag = 0
            for mask in range(1, 256):
                b = bytearray(p)
                b[pos] ^= mask
                segs.append(["corrupt", bytes(b).hex()])
                segs.append(["pkt", traffic.tagged_packet("waveshare", tag % 250).hex()])
                tag += 1
            plans.append({"corrupt_sweep": True, "client": "waveshare", "config": {}, "pos": pos, "packet": p.hex(),
                          "script": [{"a": "accept", "lat": 0.001, "stream": segs, "chunks": [rng.choice([20, 100, 333, 4096])] * 2000,
                                      "gaps": [1e-4], "start": 0.001}],
                          "ops": [{"at": 0.0, "op": "connect", "id": 0}], "cb": {},
                          "knobs": {"min_end": 1.0, "tail": 3.0, "max_end": 300.0}, "_seed": s * 100 + pos, "_idx": -1})
    return plans


def _expected(m):
    """Reference: the canonical payload decoded without any wire, with the same addressing."""
    from nmea2000.decoder import NMEA2000Decoder
    pl = bytes.fromhex(m["payload"])
    line = n2k.plain_line(m["pgn"], m["src"], m["dst"], m["prio"], pl)
    return NMEA2000Decoder().decode_basic_string(line, True)


def execute(plan):
    if plan.get("corrupt_sweep"):
        return _execute_corrupt(plan)
    kind = plan["client"]
    o = loopback.run(plan)
    v = []
    st = {"client_" + kind: 1, "loopback_runs": 1}
    end_ev = len(o.trace)
    if o.crashed:
        v.append(viol("C06.roundtrip." + kind, end_ev, "run ended abnormally: %s" % o.crashed))
    if o.stalls:
        v.append(viol("C06.roundtrip." + kind, end_ev, "busy loop: %r" % (o.stalls[0],)))
    # ---- (1) framing at the sender's transport ---------------------------------------------------------
    for i, writes in o.sender_writes:
        for w in writes:
            if kind == "ebyte" and len(w) != 13:
                v.append(viol("C06.size.ebyte", end_ev, "EByte packet of %d bytes (must be 13) for message #%d PGN %d: %s" %
                              (len(w), i, plan["messages"][i]["pgn"], w.hex())))
                break
            if kind == "waveshare":
                if len(w) != 20:
                    v.append(viol("C06.size.usb", end_ev, "USB packet of %d bytes (must be 20) for message #%d: %s" % (len(w), i, w.hex())))
                    break
                if w[:2] != b"\xaa\x55" or n2k.usb_checksum(w) != w[19]:
                    v.append(viol("C06.checksum", end_ev, "USB packet with bad header/checksum for message #%d: %s" % (i, w.hex())))
                    break
            if kind == "yd":
                if not w.endswith(b"\r\n") or b"\r" in w[:-2] or b"\n" in w[:-2]:
                    v.append(viol("C06.line", end_ev, "Yacht Devices packet is not exactly one CR LF terminated line: %r" % (w,)))
                    break
            if kind == "actisense":
                if "\r" in w or "\n" in w:
                    v.append(viol("C06.line", end_ev, "Actisense text contains a line break: %r" % (w,)))
                    break
    # ---- (2) round trip through the matching receive path -------------------------------------------------
    want = []
    for m in plan["messages"]:
        e = _expected(m)
        want.append(msgs.key(e, iso=False) if e is not None else None)
    got = [msgs.key(r[1], iso=False) for r in o.recv]
    want = [w for w in want if w is not None]
    if got != want and not v:
        n = 0
        while n < len(got) and n < len(want) and got[n] == want[n]:
            n += 1
        if n < len(got) and n < len(want):
            why = "message #%d came back different: %s" % (n, msgs.diff(got[n], want[n]))
        elif n == len(got):
            why = "only %d of %d sent messages came back (first missing: PGN %s id %s)" % (len(got), len(want), want[n][0], want[n][1])
        else:
            why = "%d extra message(s) came back" % (len(got) - len(want))
        v.append(viol("C06.roundtrip." + kind, o.recv[n][0] if n < len(o.recv) else end_ev,
                      "%s [sent %d messages as %d bytes; send errors %s]" % (why, len(want), len(o.wire), o.send_errors)))
    short = sum(1 for m in plan["messages"] if (not m["fast"] and len(m["payload"]) < 16) or
                (m["fast"] and (len(m["payload"]) // 2 < 6 or (len(m["payload"]) // 2 - 6) % 7 != 0)))
    st["messages_sent"] = len(plan["messages"])
    st["messages_with_short_frame"] = short
    st["messages_multi_frame"] = sum(1 for m in plan["messages"] if m["fast"] and len(m["payload"]) > 12)
    st["seg_mode_" + str(plan.get("mode"))] = 1
    nontrivial = bool(got) and (short > 0 or st["messages_multi_frame"] > 0) and plan.get("mode") != "all"
    return {"violations": v, "digest": o.digest, "stats": st, "nontrivial": nontrivial, "vtime": o.end_vt}


def _execute_corrupt(plan):
    o = net.run(plan)
    v = []
    segs = plan["script"][0]["stream"]
    want = [c13_tag(s[1]) for s in segs if s[0] == "pkt"]
    got = [traffic.tag_of(r[3]) for r in o.recv]
    bad = [r for r in o.recv if traffic.tag_of(r[3]) is None or bytes(r[3].raw_can_data) in
           {bytes.fromhex(s[1]) for s in segs if s[0] == "corrupt"}]
    if bad:
        v.append(viol("C06.corrupt.delivered", bad[0][0], "a USB packet with byte %d corrupted was delivered: %s" %
                      (plan["pos"], bytes(bad[0][3].raw_can_data).hex())))
    elif got != want:
        v.append(viol("C06.corrupt.collateral", len(o.trace), "corrupting byte %d of a packet lost or reordered good packets: "
                      "%d of %d delivered" % (plan["pos"], len(got), len(want))))
    if o.crashed or o.stalls:
        v.append(viol("C06.corrupt.collateral", len(o.trace), "run ended abnormally: %s %s" % (o.crashed, o.stalls[:1])))
    st = {"corruptions_injected": sum(1 for s in segs if s[0] == "corrupt"), "corrupt_sweep_runs": 1}
    return {"violations": v, "digest": o.digest, "stats": st, "nontrivial": True, "vtime": o.end_vt}


def c13_tag(hx):
    b = bytes.fromhex(hx)
    return b[10]


def describe(plan):
    if plan.get("corrupt_sweep"):
        return {"corrupt_sweep": True, "packet": plan["packet"], "position": plan["pos"], "masks": "1..255"}
    return {"client": plan["client"], "segmentation_mode": plan.get("mode"),
            "messages": [{k: m[k] for k in ("pgn", "id", "src", "dst", "prio", "payload")} for m in plan["messages"]][:6],
            "chunk_sizes": plan.get("chunks", [])[:12]}


def seam_check():
    from .common import seam_net, seam_clock, seam_fs
    return seam_net()
