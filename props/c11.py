"""C11 -- messages carry the identity of their source's latest address claim."""
import hashlib

from sim import bus, bustraffic, msgs, n2k, traffic, catalog
from . import c10
from .common import REAL_BUS, STUB_BUS, ASSUME_BUS, viol

ID = "C11"
ENGINE = "bussim"
LEVEL = "exploration"
RUNS = {"quick": 16000, "thorough": 800000}
BUDGET_S = {"quick": 45, "thorough": 480}
BATCH = 200
WINDOW = 600.0
RULE = ("one run = one bus history over 2-6 source addresses with address claims (first claim, identical repeat, re-claim "
        "with a new NAME, two addresses claiming one NAME, claim between the frames of a fast-packet message of the same "
        "source), data before claim, on a virtual wall clock placed before, across (+-0.1 s) and after the 10-minute "
        "discovery boundary; delivered to 3-5 listeners differing in manufacturer include/exclude lists (random letter "
        "case), network mapping on/off and claim PGN filtered or not.  A reference source map (address -> latest claim) "
        "is the oracle.  Non-trivial = at least one claim, one message returned with identity and one message withheld.  "
        "Distinct = sha256 of (history, configurations, results).")
REAL = REAL_BUS
STUB = STUB_BUS
ASSUMPTIONS = ASSUME_BUS + ["expected identity attributes come from decoding the same claim frame in an isolated decoder "
                            "(association and recency are what this property adds); the 64-bit NAME is computed "
                            "independently from the payload bytes",
                            "unknown manufacturer codes and unclaimed sources after the discovery window are outside the "
                            "statement: only the identity carried (R1) is judged there; instants within 1 ms of the "
                            "window boundary are not judged"]
SHRINK_PATHS = [("events",), ("listeners",), ("script", "*", "stream")]

_names = {}


W_LO = W_HI = None      # the discovery window this tree uses lies in (W_LO, W_HI]: measured, see _calibrate_window
_CAL = [0.5, 5.0, 30.0, 60.0, 120.0, 240.0, 299.0, 301.0, 480.0, 599.0, 601.0, 899.0, 901.0, 1200.0, 1800.0, 3600.0, 7200.0]


def prime():
    catalog.load()
    for code in traffic.MFG_CODES + [999, 2046]:
        _names[code] = _mfg_name(code)
    _calibrate_window()


def _calibrate_window():
    """The statement names a discovery window but not its length.  It is measured once per process on a fresh
    decoder (network mapping on, no claim ever seen, one single-frame message of the same unclaimed source
    offered at growing wall-clock times): R3 then demands silence before the last instant the tree itself still
    withheld.  A tree that returns the message after half a second has no discovery window."""
    global W_LO, W_HI
    from nmea2000.decoder import NMEA2000Decoder
    vc = bus.VClock(0.0)
    bus.with_clock(vc)
    d = NMEA2000Decoder(build_network_map=True)
    fr = [127250, 77, 255, 2, "00ffff7fffff7ffd"]
    W_LO, W_HI = 0.0, None
    for t in _CAL:
        vc.t = t
        r, exc = bus.feed_frame(d, "ebyte", fr)
        if r is not None:
            W_HI = t
            break
        W_LO = t
    if W_HI is None:
        W_HI = float("inf")
    bus.with_clock(None)


def _mfg_name(code):
    from nmea2000.decoder import NMEA2000Decoder
    data, name = n2k.claim_payload(1, code)
    m = NMEA2000Decoder().decode_basic_string(n2k.plain_line(60928, 1, 255, 6, data), True)
    return m.source_iso_name.manufacturer_code if m is not None and m.source_iso_name is not None else None


def _wire(kind, pgn, src, dst, prio, data):
    idn = n2k.can_id(pgn, src, dst, prio)
    if kind == "ebyte":
        return n2k.wire_ebyte(idn, data)
    if kind == "waveshare":
        return n2k.wire_usb(idn, data)
    if kind == "yd":
        return n2k.wire_yd(idn, data)
    return (n2k.actisense_line(pgn, src, dst, prio, data) + "\r\n").encode()


def gen_client(rng, idx):
    """Client-level variant: the identity map has to survive reconnects (devices do not claim again)."""
    kind = rng.choice(["ebyte", "actisense", "yd", "waveshare"])
    good, bad = rng.sample(traffic.MFG_CODES, 2)
    a, b = rng.sample(range(1, 250), 2)
    cfg = rng.choice([{"exclude_manufacturer_code": [c10._case(rng, _names[bad])]},
                      {"include_manufacturer_code": [c10._case(rng, _names[good])]}])
    ca, _ = n2k.claim_payload(rng.getrandbits(21), good, 1, 2, 130, 25, 0, 4, 1)
    cb, _ = n2k.claim_payload(rng.getrandbits(21), bad, 1, 2, 130, 25, 0, 4, 1)
    first = [["claim", _wire(kind, 60928, a, 255, 6, ca).hex()], ["claim", _wire(kind, 60928, b, 255, 6, cb).hex()]]
    tag = 0
    for _ in range(rng.randrange(1, 4)):
        first.append(["pkt", traffic.tagged_packet(kind, tag, src=rng.choice([a, b])).hex()])
        tag += 1
    script = [{"a": "accept", "lat": 0.01, "stream": first, "chunks": [len(x[1]) // 2 for x in first], "gaps": [0.01], "start": 0.01,
               "end": {"k": rng.choice(["eof", "reset"]), "after": sum(len(x[1]) // 2 for x in first), "d": 0.1}}]
    for _ in range(rng.choice([0, 1, 2])):
        script.append({"a": "refuse", "lat": 0.001})
    later = []
    for _ in range(rng.randrange(3, 8)):
        later.append(["pkt", traffic.tagged_packet(kind, 100 + tag, src=rng.choice([a, b])).hex()])
        tag += 1
    script.append({"a": "accept", "lat": 0.01, "stream": later, "chunks": [len(x[1]) // 2 for x in later], "gaps": [0.05], "start": 0.1})
    return {"net": True, "client": kind, "config": cfg, "script": script, "ops": [{"at": 0.0, "op": "connect", "id": 0}], "cb": {},
            "knobs": {"min_end": 5.0, "tail": 30.0, "max_end": 600.0}, "good": [a, _names[good]], "bad": [b, _names[bad]]}


def execute_client(plan):
    from sim import net
    o = net.run(plan)
    v = []
    a, good = plan["good"]
    b, bad = plan["bad"]
    st = {"client_level_runs": 1, "client_" + plan["client"]: 1, "reconnects": max(0, len(o.conns) - 1)}
    for r in o.recv:
        m = r[3]
        if m.PGN == 60928:
            continue
        after = "after the reconnect" if len(o.conns) > 1 and r[1] > o.conns[-1]["at"] else "on the first connection"
        if m.source == b:
            v.append(viol("C11.R2", r[0], "client %s %s delivered %d/%s from address %d %s although its claimed manufacturer %r does "
                          "not pass the manufacturer lists" % (plan["client"], plan["config"], m.PGN, m.id, b, after, bad)))
            break
        if m.source == a:
            iso = m.source_iso_name
            if iso is None or iso.manufacturer_code != good:
                v.append(viol("C11.R1", r[0], "client %s: %d/%s from address %d delivered %s carries identity %s, its latest claim says "
                              "manufacturer %r" % (plan["client"], m.PGN, m.id, a, after, None if iso is None else iso.manufacturer_code, good)))
                break
            st["returned_with_identity"] = st.get("returned_with_identity", 0) + 1
    if o.crashed or o.stalls:
        v.append(viol("C11.R4", len(o.trace), "run ended abnormally: %s %s" % (o.crashed, o.stalls[:1])))
    return {"violations": v, "digest": o.digest, "stats": st, "nontrivial": len(o.conns) > 1 and len(o.recv) > 0, "vtime": o.end_vt}


def gen(rng, idx, tier):
    if idx % 12 == 11:
        return gen_client(rng, idx)
    sources = rng.sample(range(0, 253), rng.randrange(2, 7))
    n = rng.choice([6, 12, 25, 40])
    ev = bustraffic.history(rng, n_items=n, sources=sources, claims=False, unknown=False, incomplete=rng.random() < 0.3)
    # device identities
    codes = traffic.MFG_CODES + ([999] if rng.random() < 0.2 else [])
    ident = {}
    for s in sources:
        ident[s] = (rng.getrandbits(21), rng.choice(codes))
    shared = rng.random() < 0.2 and len(sources) > 1
    if shared:
        ident[sources[1]] = ident[sources[0]]
    # sprinkle claims
    claims = []
    for s in sources:
        k = rng.random()
        if k < 0.15:
            continue                       # never claims
        pos = 0 if rng.random() < 0.4 else rng.randrange(0, len(ev) + 1)
        claims.append((pos, s, ident[s]))
        if rng.random() < 0.4:             # identical repeat
            claims.append((rng.randrange(pos, len(ev) + 1), s, ident[s]))
        if rng.random() < 0.4:             # re-claim with a new NAME / other manufacturer
            claims.append((rng.randrange(pos, len(ev) + 1), s, (rng.getrandbits(21), rng.choice(codes))))
        if rng.random() < 0.3:             # re-claim: same serial number and manufacturer, other instance / function / class
            claims.append((rng.randrange(pos, len(ev) + 1), s, ident[s] + (rng.getrandbits(30),)))
    claims.sort(key=lambda c: c[0], reverse=True)
    for pos, s, idt in claims:
        uniq, code = idt[0], idt[1]
        v = idt[2] if len(idt) > 2 else uniq          # the rest of the NAME follows the serial number unless varied on purpose
        data, name = n2k.claim_payload(uniq, code, v & 7, (v >> 3) & 31, 130 + (v % 3) * 10, 25 + (v % 4) * 5, (v >> 8) & 15, 4, v & 1)
        ev.insert(pos, {"f": [60928, s, 255, 6, data.hex()], "k": "claim", "m": -1, "i": 0, "n": 1, "mfg": code, "name": name})
    # clock placement
    mode = rng.choice(["before", "before", "across", "after", "long"])
    t = {"before": rng.uniform(0, 300), "across": WINDOW - rng.uniform(0.0, 0.1) * len(ev) / 2, "after": WINDOW + rng.uniform(0.01, 100),
         "long": rng.uniform(0, 100)}[mode]
    for e in ev:
        step = rng.uniform(0.0, 0.1) if mode != "long" else rng.uniform(0, 60)
        t += step
        e["at"] = round(t, 6)
    names = sorted(n for n in {_names.get(c) for _, c in ident.values()} if n)
    listeners = []
    for _ in range(rng.randrange(3, 6)):
        cfg = {"build_network_map": rng.random() < 0.5}
        k = rng.random()
        pick = [c10._case(rng, x) for x in rng.sample(names + ["Garmin", "Nobody"], rng.randrange(1, 3))]
        if k < 0.4:
            cfg["exclude_manufacturer_code"] = pick
        elif k < 0.75:
            cfg["include_manufacturer_code"] = pick
        elif k < 0.9:
            # both lists at once, possibly naming the same manufacturer in different letter case
            cfg["include_manufacturer_code"] = pick
            pop = sorted(set(pick + names), key=lambda x: (x.lower(), x))     # total order: set iteration order must not show
            cfg["exclude_manufacturer_code"] = [c10._case(rng, x) for x in rng.sample(pop, min(len(pop), rng.randrange(1, 3)))]
        k = rng.random()
        if k < 0.2:
            cfg["exclude_pgns"] = [rng.choice([60928, c10._case(rng, "isoAddressClaim")])]
        elif k < 0.35:
            cfg["include_pgns"] = sorted({e["f"][0] for e in ev if e["k"] != "claim"})[:rng.randrange(1, 6)] + ([60928] if rng.random() < 0.5 else [])
        listeners.append(cfg)
    # the gateway's own line timestamps are unrelated to the decoder's wall clock (recorded logs, device uptime):
    # they must not influence admission
    stamp = rng.choice(["2022-09-28-11:36:59.668", "2035-01-01-00:00:00.000", "2024-01-01-00:00:01.000", "2024-01-01-00:20:00.000",
                        "1999-12-31-23:59:59.999"])
    return {"format": rng.choice(["ebyte", "usb", "yd", "plain", "plain"]), "events": ev, "listeners": listeners, "clock": mode,
            "stamp": stamp}


def _claim_identity(fr):
    """Identity attributes a claim frame decodes to, in an isolated decoder."""
    from nmea2000.decoder import NMEA2000Decoder
    d = NMEA2000Decoder()
    m, exc = bus.feed_frame(d, "plain", fr)
    if m is None:
        return None
    k = dict(msgs.iso_key(m.source_iso_name))
    k["name"] = repr(int.from_bytes(bytes.fromhex(fr[4]), "little"))      # independent of the library
    return tuple(sorted(k.items())), m.source_iso_name.manufacturer_code


def execute(plan):
    if plan.get("net"):
        return execute_client(plan)
    from nmea2000.decoder import NMEA2000Decoder
    vc = bus.VClock(0.0)
    bus.with_clock(vc)
    fmt = plan["format"]
    v = []
    U = NMEA2000Decoder()
    ls = []
    for cfg in plan["listeners"]:
        try:
            ls.append(NMEA2000Decoder(**{k: (list(x) if isinstance(x, list) else x) for k, x in cfg.items()}))
        except ValueError:
            return {"violations": [], "digest": "invalid", "stats": {"invalid_plan": 1}, "nontrivial": False, "vtime": 0.0}
    if W_LO == 0.0 and any(cfg.get("build_network_map") for cfg in plan["listeners"]):
        v.append(viol("C11.R3", 0, "with network mapping on, a fresh decoder returns a message of a source that never claimed "
                      "%.1f s after it was created: there is no discovery window" % _CAL[0]))
        return {"violations": v, "digest": "nowindow", "stats": {"no_discovery_window": 1}, "nontrivial": False, "vtime": 0.0}
    latest = {}        # address -> (identity key, manufacturer string)
    tainted = [dict() for _ in ls]      # per listener: stream -> True if a frame of the current message was not admissible
    st = {"frames": 0, "claims": 0, "returned_with_identity": 0, "withheld": 0, "reclaims": 0, "window_crossed": 0,
          "claim_inside_fast_message": 0}
    per_stream = {}
    open_fast = {}
    log = []
    prev_t = 0.0
    for evno, e in enumerate(plan["events"]):
        t = e.get("at", prev_t)
        if prev_t < WINDOW <= t:
            st["window_crossed"] += 1
        prev_t = t
        vc.t = t
        fr = e["f"]
        pgn, src = fr[0], fr[1]
        st["frames"] += 1
        is_claim = pgn == 60928
        if is_claim:
            ci = _claim_identity(fr)
            if ci is not None:
                if src in latest and latest[src][0] != ci[0]:
                    st["reclaims"] += 1
                latest[src] = ci
                st["claims"] += 1
                if any(k[1] == src for k in open_fast):
                    st["claim_inside_fast_message"] += 1
        if e["k"] == "fast":
            key = (pgn, src, fr[2])
            if e["i"] == 0:
                per_stream[key] = per_stream.get(key, 0) + 1
                open_fast[key] = True
            if e["i"] == e["n"] - 1:
                open_fast.pop(key, None)
        u, _ = bus.feed_frame(U, fmt, fr, plan.get("stamp"))
        near_boundary = W_LO - 0.001 <= t <= (W_HI + 0.001)
        for li, (d, cfg) in enumerate(zip(ls, plan["listeners"])):
            r, exc = bus.feed_frame(d, fmt, fr, plan.get("stamp"))
            ident = latest.get(src)
            bnm = bool(cfg.get("build_network_map"))
            # admissibility of a non-claim message from src at this instant
            adm = True
            dont_care = False
            if ident is None:
                if bnm:
                    if near_boundary:
                        dont_care = True
                    elif t < W_LO:
                        adm = False
                    else:
                        dont_care = True        # unclaimed source after the window: outside the statement
            else:
                mfg = ident[1]
                if mfg is None:
                    dont_care = True
                else:
                    ex = [x.lower() for x in cfg.get("exclude_manufacturer_code") or []]
                    inc = [x.lower() for x in cfg.get("include_manufacturer_code") or []]
                    if mfg.lower() in ex or (inc and mfg.lower() not in inc):
                        adm = False
            stream = (pgn, src, fr[2])
            if e["k"] == "fast" and not is_claim:
                if e["i"] == 0:
                    tainted[li][stream] = False
                if not adm or dont_care:
                    tainted[li][stream] = True
            if r is not None:
                # ---- R1: identity of the latest claim ----
                got = msgs.iso_key(r.source_iso_name)
                want = ident[0] if ident is not None else None
                got_s = tuple(sorted(dict(got).items())) if got is not None else None
                if got_s != want:
                    v.append(viol("C11.R1", evno, "listener %d %s: %d/%s from address %d carries identity %s, the latest claim "
                                  "from that address is %s" % (li, cfg, r.PGN, r.id, src, _brief(got_s), _brief(want))))
                elif want is not None:
                    st["returned_with_identity"] += 1
                if not is_claim and not dont_care and not adm:
                    if ident is None:
                        v.append(viol("C11.R3", evno, "listener %d %s returned %d/%s from address %d at t=%.3f s although that "
                                      "address has not claimed yet and network mapping is on" % (li, cfg, r.PGN, r.id, src, t)))
                    else:
                        v.append(viol("C11.R2", evno, "listener %d %s returned %d/%s from address %d whose claimed manufacturer "
                                      "%r does not pass its manufacturer lists" % (li, cfg, r.PGN, r.id, src, ident[1])))
                if u is None and max(per_stream.values() or [0]) < 8 and not v:
                    v.append(viol("C11.R4", evno, "listener %d %s returned %d/%s from address %d where an unfiltered decoder returns "
                                  "nothing" % (li, cfg, r.PGN, r.id, src)))
                elif u is not None and not v:
                    a, b = msgs.key(r), msgs.key(u)
                    if a[:6] != b[:6]:
                        v.append(viol("C11.R4", evno, "listener %d %s returned %d/%s with different content than an unfiltered "
                                      "decoder: %s" % (li, cfg, r.PGN, r.id, msgs.diff(a[:6], b[:6]))))
            else:
                if u is not None:
                    st["withheld"] += 1
                # ---- completeness is not part of the statement ("returned only if ..." is one-directional): a
                # decoder that also withholds claims of blocked makers, gives each source its own discovery window
                # or drops a half-assembled message at a re-claim keeps the property.  Counted, never reported.
                if u is not None and not dont_care and c10.permitted(u, cfg):
                    if is_claim or (adm and (e["k"] != "fast" or not tainted[li].get(stream, True))):
                        st["withheld_although_admissible(not judged)"] = st.get("withheld_although_admissible(not judged)", 0) + 1
            if v:
                break
        log.append(msgs.key(u)[:5] if u is not None else None)
        if v:
            break
    h = hashlib.sha256(repr((fmt, plan["listeners"], [(e["f"], e.get("at")) for e in plan["events"]], log)).encode()).hexdigest()
    st["clock_" + str(plan.get("clock"))] = 1
    nontrivial = st["claims"] > 0 and st["returned_with_identity"] > 0 and st["withheld"] > 0
    return {"violations": v, "digest": h, "stats": st, "nontrivial": nontrivial, "vtime": prev_t}


def _brief(k):
    if k is None:
        return None
    d = dict(k)
    return "NAME=%s mfg=%s unique=%s" % (d.get("name"), d.get("manufacturer_code"), d.get("unique_number"))


def describe(plan):
    if plan.get("net"):
        return {"client_level": True, "client": plan["client"], "config": plan["config"], "allowed": plan["good"], "excluded": plan["bad"],
                "script": [{k: (v if k not in ("stream", "chunks", "gaps") else len(v)) for k, v in e.items()} for e in plan["script"]]}
    return {"format": plan["format"], "clock": plan.get("clock"), "listeners": plan["listeners"],
            "history": [[e.get("at")] + e["f"][:4] + [e["k"]] + ([e.get("mfg")] if e["k"] == "claim" else []) for e in plan["events"][:30]]}


def seam_check():
    from .common import seam_net, seam_clock, seam_fs
    return seam_clock() or seam_net()
