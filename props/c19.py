"""C19 -- send() writes the encoder's packets contiguously; bad messages are harmless."""
import json

from sim import net, traffic
from . import session, c13
from .common import CLIENTS, REAL_NET, STUB_NET, ASSUME_NET, viol

ID = "C19"
ENGINE = "netsim"
LEVEL = "exploration"
RUNS = {"quick": 40000, "thorough": 1500000}
BUDGET_S = {"quick": 45, "thorough": 480}
BATCH = 40
QUIET_S = 30.0
RULE = ("one run = a connected client x 1-5 send() calls from concurrent tasks at planned instants (single- and "
        "multi-frame messages, each with its own source address so packets are attributable) x the transport's flow "
        "control suspending drain() after a planned subset of writes x unsendable messages (missing field, value out "
        "of range, unknown PGN, wrong type, client without encoder) x a failing write at packet k x tagged inbound "
        "traffic.  Non-trivial = two sends overlapped in time, or an unsendable message was tried, or a write fault "
        "fired.  Distinct = distinct sha256 of the event trace.")
REAL = REAL_NET
STUB = STUB_NET
ASSUMPTIONS = ASSUME_NET + ["the expected packets are those a fresh NMEA2000Encoder produces for the same message, with the "
                            "3-bit sequence counter masked (the counter value depends on the client's history)",
                            "a write fault is modelled as connection_lost(exc) scheduled by the failing write; drain() "
                            "raises afterwards"]
SHRINK_PATHS = [("ops",), ("script", "*", "stream")]

BAD_KINDS = ["missing_field", "out_of_range", "unknown_pgn", "wrong_type", "bad_priority"]


ACT_HAS_ENCODER = False


def prime():
    from sim import catalog
    catalog.load()
    catalog.fixpoints()
    _probe_actisense()


def _probe_actisense():
    """"Format without an encoder" is the Actisense client on this tree.  Should a tree give it one, its wire form is
    not one this check knows the encoder's packets for: such runs are then counted, not judged (the three clients with
    a known encoder carry the property)."""
    global ACT_HAS_ENCODER
    import random
    rng = random.Random(7)
    pkt = traffic.tagged_packet("actisense", 7)
    plan = {"client": "actisense", "config": {}, "script": [{"a": "accept", "lat": 0.01, "stream": [["pkt", pkt.hex()]], "chunks": [len(pkt)],
                                                             "gaps": [0.01], "start": 0.01}],
            "ops": [{"at": 0.0, "op": "connect", "id": 0}, {"at": 1.0, "op": "send", "msg": session.sendable(rng, multi=False), "id": 1}],
            "cb": {}, "knobs": {"min_end": 3.0, "tail": 2.0, "max_end": 60.0}}
    try:
        o = net.run(plan)
        ACT_HAS_ENCODER = any(c["written"] for c in o.conns)
    except Exception:
        ACT_HAS_ENCODER = False


def _with_source(js, src, bad=None, rng=None):
    d = json.loads(js)
    d["source"] = src
    d["raw_can_data"] = None
    if bad == "missing_field":
        fields = [f for f in d["fields"]]
        if fields:
            del fields[rng.randrange(len(fields))]
        d["fields"] = fields
    elif bad == "out_of_range":
        nums = [f for f in d["fields"] if isinstance(f.get("value"), (int, float)) and not isinstance(f.get("value"), bool)
                and f.get("type") == [1]]
        if not nums:
            return None
        rng.choice(nums)["value"] = rng.choice([1e15, -1e15, 2 ** 70, "@int:%d" % 2 ** 64, "@int:%d" % 2 ** 70, "@int:%d" % -(10 ** 30)])
    elif bad == "unknown_pgn":
        d["PGN"] = rng.choice([99999, 12345, 130999])
        d["id"] = "noSuchThing"
    elif bad == "wrong_type":
        nums = [f for f in d["fields"] if f.get("type") == [1]]
        if not nums:
            return None
        rng.choice(nums)["value"] = "not a number"
    elif bad == "bad_priority":
        d["priority"] = rng.choice([8, -1, 99])
    return json.dumps(d)


def gen_unconnected(rng, kind):
    """Unsendable messages handed to a client that was never connected: nothing may happen at all."""
    ops = []
    for i in range(rng.randrange(1, 4)):
        if kind == "actisense":
            js, k = _with_source(session.sendable(rng), 10 + i), "no_encoder"
        else:
            js = None
            while js is None:
                k = rng.choice(BAD_KINDS)
                js = _with_source(session.sendable(rng, multi=(rng.random() < 0.5)), 10 + i, k, rng)
        ops.append({"at": 0.1 + i * rng.choice([0.0, 0.01, 1.0]), "op": "send", "msg": js, "id": 10 + i, "kind": k})
    return {"client": kind, "config": {}, "script": [], "ops": ops, "cb": {}, "unconnected": True, "fault": False,
            "knobs": {"min_end": 5.0, "tail": QUIET_S + 5.0, "max_end": 300.0, "hb": 1.0}}


def gen(rng, idx, tier):
    kind = CLIENTS[idx % 4]
    if rng.random() < 0.04:
        return gen_unconnected(rng, kind)
    fault = rng.random() < 0.3 and kind != "actisense"
    n_in = rng.randrange(2, 8)
    tags = list(range(n_in))
    segs = session.spaced_stream(rng, kind, tags)
    entry = {"a": "accept", "lat": rng.choice([0.0, 0.01]), "stream": segs, "start": 0.001,
             "chunks": [len(s[1]) // 2 for s in segs], "gaps": [rng.choice([0.01, 0.1, 0.5, 2.0]) for _ in range(4)]}
    w = {}
    if rng.random() < 0.75:
        p = rng.choice([0.2, 0.6, 1.0])
        w["pause"] = {str(i): rng.choice([0.001, 0.01, 0.05, 0.5]) for i in range(60) if rng.random() < p}
    if fault:
        w["fail_at"] = rng.randrange(0 if kind != "waveshare" else 1, 14)
        w["fail_exc"] = rng.choice(["reset", "reset", "etimedout", "epipe"])
    entry["w"] = w
    script = [entry]
    if fault:
        for _ in range(rng.choice([0, 0, 1, 3])):
            script.append({"a": "refuse", "lat": 0.001})
        ftags = list(range(100, 104))
        fsegs = session.spaced_stream(rng, kind, ftags)
        script.append({"a": "accept", "lat": 0.01, "stream": fsegs, "start": 0.5, "final": True,
                       "chunks": [len(s[1]) // 2 for s in fsegs], "gaps": [0.1],
                       "w": {"pause": {str(i): 0.01 for i in range(30) if rng.random() < 0.3}}})
    ops = [{"at": 0.0, "op": "connect", "id": 0}]
    n_send = rng.randrange(1, 6)
    t0 = rng.choice([0.1, 0.2, 1.0])
    burst = rng.random() < 0.6
    for i in range(n_send):
        bad = None
        if kind != "actisense" and rng.random() < 0.3:
            bad = rng.choice(BAD_KINDS)
        js = None
        while js is None:
            js = _with_source(session.sendable(rng, multi=(rng.random() < 0.6)), 10 + i, bad, rng)
        at = t0 + (rng.choice([0.0, 0.0, 1e-6, 0.001, 0.02]) if burst else rng.uniform(0, 3.0))
        ops.append({"at": at, "op": "send", "msg": js, "id": 10 + i,
                    "kind": bad or ("no_encoder" if kind == "actisense" else "ok")})
    if fault and rng.random() < 0.7:
        for j in range(rng.randrange(1, 3)):
            ops.append({"on_accept": len(script) - 1, "d": rng.choice([0.1, 1.0]), "op": "send",
                        "msg": _with_source(session.sendable(rng), 30 + j), "id": 30 + j, "kind": "ok"})
    if fault and rng.random() < 0.4:
        # a read-side fault (EOF / reset) while one send() is suspended in drain() and another one waits behind it:
        # the queued message must go to the link that is current when its turn comes
        entry["w"] = {"pause": {str(i): rng.choice([0.5, 1.0, 2.0]) for i in range(1 if kind == "waveshare" else 0, 4)}}
        entry["end"] = {"k": rng.choice(["eof", "reset"]), "after": sum(len(sg[1]) // 2 for sg in segs), "d": rng.choice([0.05, 0.3, 0.6])}
        entry["gaps"] = [0.01]
        t1 = rng.choice([0.1, 0.2])
        ops = [o for o in ops if o["op"] != "send" or "on_accept" in o]
        for i in range(rng.randrange(2, 4)):
            ops.append({"at": t1 + i * rng.choice([0.0, 0.001, 0.01]), "op": "send", "msg": _with_source(session.sendable(rng, multi=(i == 0 or rng.random() < 0.5)), 10 + i),
                        "id": 10 + i, "kind": "ok"})
    if fault and rng.random() < 0.35:
        # callers that give up: the send() coroutine is cancelled in the middle of whatever it is doing
        for o_ in ops:
            if o_["op"] == "send" and rng.random() < 0.6:
                o_["timeout"] = rng.choice([0.01, 0.1, 0.3, 1.0])
        if rng.random() < 0.5:
            # ... while the gateway refuses the first reconnection attempts
            script[1:1] = [{"a": "refuse", "lat": 0.001} for _ in range(rng.choice([1, 2, 4]))]
            for o_ in ops:
                if "on_accept" in o_:
                    o_["on_accept"] = len(script) - 1
    status = session.cb_faults(rng, 12, p_raise=rng.choice([0, 0.3]), p_delay=rng.choice([0, 0.3]), delays=(0.001, 0.1, 1.0))
    return {"client": kind, "config": {}, "script": script, "ops": ops, "cb": {"status": status},
            "knobs": {"min_end": 5.0, "tail": (c13.RECOVER_S + 10.0) if fault else (QUIET_S + 5.0), "max_end": 2000.0, "hb": 1.0},
            "fault": fault}


def _src_of(kind, b):
    try:
        if kind == "ebyte":
            return b[4]
        if kind == "waveshare":
            return b[5]
        return int(b[:8], 16) & 0xFF
    except Exception:
        return None


def _mask(kind, b, fast):
    if not fast:
        return bytes(b)
    b = bytearray(b)
    try:
        if kind == "ebyte":
            b[5] &= 0x1F
        elif kind == "waveshare":
            b[10] &= 0x1F
            b[19] = 0
        else:
            first = int(b[9:11], 16) & 0x1F
            b[9:11] = b"%02X" % first
    except Exception:
        pass
    return bytes(b)


def _seq(kind, b):
    try:
        if kind == "ebyte":
            return b[5] >> 5
        if kind == "waveshare":
            return b[10] >> 5
        return int(b[9:11], 16) >> 5
    except Exception:
        return None


def _reference(kind, js):
    from nmea2000.encoder import NMEA2000Encoder
    from nmea2000.decoder import NMEA2000Decoder
    from nmea2000.message import NMEA2000Message
    m = NMEA2000Message.from_json(js)
    enc = NMEA2000Encoder()
    fn = {"ebyte": enc.encode_ebyte, "waveshare": enc.encode_usb, "yd": enc.encode_yacht_devices}[kind]
    pk = fn(m)
    fast = bool(NMEA2000Decoder._isFastPGN(m.PGN))
    return [bytes(p) for p in pk], fast


def execute(plan):
    o = net.run(plan)
    kind = plan["client"]
    if kind == "actisense" and ACT_HAS_ENCODER:
        return {"violations": [], "digest": o.digest, "stats": {"actisense_client_has_an_encoder(not judged)": 1}, "nontrivial": False,
                "vtime": o.end_vt}
    sfx = "." + kind
    v = []
    if plan.get("unconnected"):
        kinds = sorted({op.get("kind") for op in plan["ops"] if op["op"] == "send"})
        if any(op.get("kind") in (None, "ok") for op in plan["ops"] if op["op"] == "send") or any(op["op"] != "send" for op in plan["ops"]):
            return {"violations": [], "digest": o.digest, "stats": {"invalid_plan": 1}, "nontrivial": False, "vtime": o.end_vt}
        if o.attempts or o.status or o.end_state != "DISCONNECTED":
            v.append(viol("C19.W2." + (kinds[0] if kinds else "x") + sfx, o.attempts[0]["ev"] if o.attempts else len(o.trace),
                          "unsendable message(s) %s given to a client that was never connected: %d connection attempt(s), status "
                          "notifications %s, state %s (expected nothing to happen)" % (kinds, len(o.attempts), [s[3] for s in o.status], o.end_state)))
        for r in o.ops:
            if r["exc"]:
                v.append(viol("C19.W3.raise" + sfx, r["start_ev"], "send() raised %s" % r["exc"][:100]))
                break
        return {"violations": v, "digest": o.digest, "stats": {"unconnected_bad_send_runs": 1, "client_" + kind: 1},
                "nontrivial": True, "vtime": o.end_vt}
    end_ev = len(o.trace)
    st = dict(o.fired)
    st["client_" + kind] = 1
    sends = {op["id"]: op for op in (plan.get("ops") or []) if op["op"] == "send"}
    recs = {r["id"]: r for r in o.ops if r["op"] == "send"}
    fault_run = bool(plan.get("fault"))
    if o.crashed:
        v.append(viol("C19.W1.content" + sfx, end_ev, "run ended abnormally: %s" % o.crashed))
    if o.stalls:
        v.append(viol("C19.W1.content" + sfx, end_ev, "busy loop: %r" % (o.stalls[0],)))
    for i, r in recs.items():
        if r["exc"] and not r["exc"].startswith(("TimeoutError", "CancelledError")):
            v.append(viol("C19.W3.raise" + sfx, r["start_ev"], "send #%d raised %s to its caller (a failing write is reported through "
                          "DISCONNECTED and a reconnection, an unsendable message is dropped)" % (i, r["exc"][:120])))
            break
    bad_ids = [i for i, op in sends.items() if op.get("kind") != "ok"]
    ok_ids = [i for i, op in sends.items() if op.get("kind") == "ok"]
    if bad_ids:
        st["unsendable_tried"] = len(bad_ids)
        for i in bad_ids:
            st["unsendable_" + sends[i]["kind"]] = st.get("unsendable_" + sends[i]["kind"], 0) + 1
    # overlap probe
    rl = [recs[i] for i in ok_ids if i in recs and recs[i]["end"] is not None]
    overlapped = any(a is not b and a["start"] < b["end"] and b["start"] < a["end"] and a["end"] > a["start"]
                     for a in rl for b in rl)
    if overlapped:
        st["sends_overlapped_in_time"] = 1
    # ---- W1: per connection, packets of a message form one contiguous block equal to the encoder's -----------
    expected = {}
    for i in ok_ids:
        if kind == "actisense":
            continue
        try:
            expected[i] = _reference(kind, sends[i]["msg"])
        except Exception as e:
            # generator promised a sendable message; treat as harness problem, not as a violation
            raise RuntimeError("reference encoder rejected a message the generator marked sendable: %r" % (e,))
    src_to_id = {json.loads(sends[i]["msg"])["source"]: i for i in sends}
    complete = {}
    interleaved_ids = set()
    for c in o.conns:
        writes = [w[2] for w in c["written"]]
        if kind == "waveshare" and writes and writes[0][2:3] == b"\x02":
            writes = writes[1:]            # the serial client's configuration packet
        wtimes = [w[0] for w in c["written"]]
        if len(wtimes) != len(writes):
            wtimes = wtimes[len(wtimes) - len(writes):]
        blocks = []
        first_at = []
        for b, wt in zip(writes, wtimes):
            s = _src_of(kind, b)
            if blocks and blocks[-1][0] == s:
                blocks[-1][1].append(b)
            else:
                blocks.append([s, [b]])
                first_at.append(wt)
        # ---- W3.stale: a message whose first packet is written after a newer connection was reported CONNECTED
        #      must not go to the abandoned connection
        for (s, pk), t0 in zip(blocks, first_at):
            newer = [c2 for c2 in o.conns if c2["id"] > c["id"]]
            for c2 in newer:
                conn_ev = c13._accept_ev(o, c2)
                rep = next((st_[1] for st_ in o.status if st_[0] > conn_ev and st_[3] == "CONNECTED"), None)
                if rep is not None and rep < t0 and s in src_to_id:
                    mid = src_to_id[s]
                    v.append(viol("C19.W3.stale" + sfx, recs[mid]["start_ev"] if mid in recs else end_ev,
                                  "send #%d wrote its first packet at t=%.6f to connection %d although connection %d had been "
                                  "reported CONNECTED at t=%.6f: the message went to an abandoned link" % (mid, t0, c["id"], c2["id"], rep)))
                    break
        seen = set()
        srcs = [b[0] for b in blocks if b[0] in src_to_id and src_to_id[b[0]] not in bad_ids]
        split = sorted({x for x in srcs if srcs.count(x) > 1})
        for x in split:
            interleaved_ids.add(src_to_id[x])
        if split:
            mid = src_to_id[split[0]]
            v.append(viol("C19.W1.interleave" + sfx, recs[mid]["start_ev"] if mid in recs else end_ev,
                          "packets of the message from source %d are not contiguous on connection %d: block order by "
                          "source is %s" % (split[0], c["id"], [b[0] for b in blocks])))
        for bi, (s, pk) in enumerate(blocks):
            if s in split:
                continue
            mid = src_to_id.get(s)
            if mid is None:
                if s == 0:
                    continue             # the client's own network-map seeding requests (source 0)
                v.append(viol("C19.W1.content" + sfx, end_ev, "gateway received a packet with source %r that no send() "
                              "carried: %s" % (s, pk[0].hex())))
                continue
            if mid in bad_ids:
                v.append(viol("C19.W2." + sends[mid]["kind"] + sfx, recs[mid]["start_ev"] if mid in recs else end_ev,
                              "unsendable message (%s, source %d) wrote %d packet(s) to the link" % (sends[mid]["kind"], s, len(pk))))
                continue
            if s in seen:
                v.append(viol("C19.W1.interleave" + sfx, recs[mid]["start_ev"] if mid in recs else end_ev,
                              "packets of the message from source %d are not contiguous on connection %d: block order by "
                              "source is %s" % (s, c["id"], [b[0] for b in blocks])))
                break
            seen.add(s)
            exp, fast = expected[mid]
            got_m = [_mask(kind, p, fast) for p in pk]
            exp_m = [_mask(kind, p, fast) for p in exp]
            last_on_faulted = c["fault"] is not None and bi == len(blocks) - 1
            if got_m != exp_m:
                started_before = mid in recs and recs[mid]["start"] < c["at"]
                gave_up = mid in recs and (recs[mid]["exc"] or "").startswith(("TimeoutError", "CancelledError"))
                if gave_up and got_m == exp_m[:len(got_m)]:
                    st["partial_block_of_cancelled_send"] = st.get("partial_block_of_cancelled_send", 0) + 1
                elif (last_on_faulted or c["fault"] is not None) and got_m == exp_m[:len(got_m)]:
                    st["partial_block_on_faulted_connection"] = st.get("partial_block_on_faulted_connection", 0) + 1
                elif started_before and gave_up and got_m and any(got_m == exp_m[k:k + len(got_m)] for k in range(len(exp_m))):
                    # both: the tail moved to the new link and the caller then gave up in the middle of it
                    st["message_tail_after_reconnect"] = st.get("message_tail_after_reconnect", 0) + 1
                elif started_before and got_m and got_m == exp_m[len(exp_m) - len(got_m):]:
                    # the link was replaced while this message was being written: its remaining packets appear on the
                    # new link (receivers ignore continuation frames without a first frame); the statement does not
                    # forbid it, so it is counted, not judged
                    st["message_tail_after_reconnect"] = st.get("message_tail_after_reconnect", 0) + 1
                else:
                    v.append(viol("C19.W1.content" + sfx, recs[mid]["start_ev"] if mid in recs else end_ev,
                                  "connection %d: packets written for the message from source %d differ from the encoder's "
                                  "(%d written, %d expected; first difference at packet %d)" %
                                  (c["id"], s, len(pk), len(exp), next((k for k, (a, b) in enumerate(zip(got_m, exp_m)) if a != b), min(len(pk), len(exp))))))
                    continue
            else:
                complete.setdefault(mid, []).append(c["id"])
            if fast and len({_seq(kind, p) for p in pk}) > 1:
                v.append(viol("C19.W1.content" + sfx, recs[mid]["start_ev"] if mid in recs else end_ev,
                              "sequence counter changes inside one message (source %d): %s" % (s, [_seq(kind, p) for p in pk])))
        # call order of non-overlapping sends
        order = [src_to_id[b[0]] for b in blocks if b[0] in src_to_id and src_to_id[b[0]] in recs]
        for x in range(len(order)):
            for y in range(x + 1, len(order)):
                a, b = recs[order[x]], recs[order[y]]
                if b["end"] is not None and b["end"] < a["start"]:
                    v.append(viol("C19.W1.interleave" + sfx, a["start_ev"], "send #%d returned before send #%d was called, yet its "
                                  "packets come later on the link" % (order[y], order[x])))
    for mid, cl in complete.items():
        if len(cl) > 1:
            v.append(viol("C19.W1.content" + sfx, end_ev, "message from send #%d was written completely %d times" % (mid, len(cl))))
    connect_called = any(op["op"] == "connect" for op in o.ops)
    if not connect_called:
        pass
    elif not fault_run:
        # ---- W2: bad messages are harmless; good ones all go through on the one connection ----------------------
        names = [s[3] for s in o.status]
        if kind == "actisense" or bad_ids:
            label = "no_encoder" if kind == "actisense" else sends[bad_ids[0]]["kind"]
        else:
            label = None
        # the state must stay as it was: nothing is notified after the (one) CONNECTED, one connection attempt in all;
        # what the client reports on the way to CONNECTED (a CONNECTING state ...) is not this property's business
        if names.count("CONNECTED") != 1 or names[-1] != "CONNECTED" or len(o.attempts) != 1:
            first = next((s for s in o.status[names.index("CONNECTED") + 1:]), None) if "CONNECTED" in names else None
            chk = ("C19.W2." + label) if label else "C19.W1.content"
            v.append(viol(chk + sfx, first[0] if first else end_ev,
                          "fault-free session with %d send() calls (%d unsendable): status notifications %s, %d connection "
                          "attempts (expected one CONNECTED, nothing after it, and one attempt)" % (len(sends), len(bad_ids) if kind != "actisense" else len(sends), names, len(o.attempts))))
        if kind == "actisense":
            wrote = [w for c in o.conns for w in c["written"]]
            if wrote:
                v.append(viol("C19.W2.no_encoder" + sfx, end_ev, "client without an encoder wrote %d packet(s)" % len(wrote)))
        else:
            # only send() calls made once connect() has returned count: what send() does while the client is still on
            # its way to CONNECTED (refuse, wait, write already) is left open by the statement
            t_ready = next((e[1] for e in o.trace if e[3] == "op" and e[4] == "connect.end"), None)
            missing = [i for i in ok_ids if i not in complete and i in recs and i not in interleaved_ids
                       and t_ready is not None and recs[i]["start"] >= t_ready]
            st["sends_judged_for_completeness"] = len([i for i in ok_ids if i in recs and t_ready is not None and recs[i]["start"] >= t_ready])
            st["sends_before_connect_returned(not judged)"] = len([i for i in ok_ids if i in recs and (t_ready is None or recs[i]["start"] < t_ready)])
            if missing:
                v.append(viol("C19.W1.content" + sfx, recs[missing[0]]["start_ev"], "send #%d (sendable) wrote nothing although "
                              "the connection was healthy" % missing[0]))
        got = [traffic.tag_of(r[3]) for r in o.recv]
        want = c13._complete_tags(o.conns[0]) if o.conns else []
        if [g for g in got if g is not None] != want:
            chk = ("C19.W2." + label) if label else "C19.W1.content"
            v.append(viol(chk + sfx, end_ev, "inbound tagged packets %s were sent, the callback received %s" % (want, got)))
    else:
        # ---- W3: failing write -> DISCONNECTED, reconnect, CONNECTED (C13's machinery) -------------------------
        fired = any(c["fault"] is not None and c["fault"][2] == "write_fail" for c in o.conns)
        if fired:
            st["write_fault_runs"] = 1
        r = c13.evaluate(plan, o, prefix="C19.W3")
        v.extend(r["violations"])
        if o.conns and o.conns[-1]["fault"] is None and not v:
            late_ok = [i for i in ok_ids if i >= 30 and i in recs and i not in complete
                       and not (recs[i]["exc"] or "").startswith(("TimeoutError", "CancelledError"))]
            if late_ok:
                v.append(viol("C19.W3.S4" + sfx, recs[late_ok[0]]["start_ev"], "send #%d issued on the recovered connection "
                              "wrote nothing" % late_ok[0]))
    nontrivial = bool(overlapped or bad_ids or kind == "actisense" or st.get("write_fail"))
    return {"violations": v, "digest": o.digest, "stats": st, "nontrivial": nontrivial, "vtime": o.end_vt}


def simplify(plan):
    cb = plan.get("cb") or {}
    if (cb.get("status") or {}).get("raise") or (cb.get("status") or {}).get("delay"):
        p = dict(plan)
        p["cb"] = {}
        yield p


def describe(plan):
    return {"client": plan["client"], "fault_run": plan.get("fault"),
            "write_control": plan["script"][0].get("w"),
            "ops": [{"id": op.get("id"), "at": op.get("at"), "op": op["op"], "kind": op.get("kind"),
                     "pgn": json.loads(op["msg"])["PGN"] if op.get("msg") else None} for op in plan["ops"]]}


def seam_check():
    from .common import seam_net, seam_clock, seam_fs
    return seam_net()
