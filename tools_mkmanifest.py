"""Writes MANIFEST.json (kept in git; regenerate after changing the table below)."""
import json

CHECKS = {
 "C03": ("bussim", "3.C03", "fault-free bus simulation: complete sweep of payload length 0..223 x sender counter state 0..7 through the public encode path, plus seeded histories of consecutive messages (counter wrap) over every encodable fast-packet definition; per-message frame oracle and reference reassembly",
         "seeded sampling of histories, complete sweep of length x counter; injected raw codec on PGN 130816; codec fix-points only"),
 "C04": ("bussim", "3.C04", "faulty bus simulation: seeded interleaving / reordering / duplication / loss / stray of non-first frames over 1-5 colliding streams, every delivered frame judged against a per-stream reference reassembler; padding independence by double execution",
         "the property's own fault model (first frames once and in order, strays < 7 messages); payload observed through the 130816/126720 fallback definitions"),
 "C06": ("netsim", "3.C06", "loop-back over the simulated wire: real send() -> simulated gateway -> re-segmented stream -> real receive path of the same client type, framing judged at the sender's transport; complete sweep of 18 positions x 255 masks of USB corruption on sampled packets",
         "codec fix-points only; forwarding gateway stub (YD time/direction token, Actisense time token); asyncio stream semantics"),
 "C07": ("bussim", "3.C07", "replica agreement: one bus history delivered to ten differently-wired listeners sharing settings drawn per run (7 frame-level, 2 message-level, 1 that receives each message through a format drawn per message), compared at every frame and message boundary",
         "weakest fit (quantifier over inputs): frame values sampled; the simulation contributes frame-wise vs pre-assembled delivery with interleaved streams"),
 "C10": ("bussim", "3.C10", "N filtered listeners and one unfiltered listener on the same bus history, position-wise comparison against the permitted() predicate, configurations from a generator (numbers, ids in any case, mixed, claim PGN, duplicates, multi-definition ids, network map)",
         "exception of the unfiltered decoder counts as nothing returned"),
 "C11": ("bussim", "3.C11", "bus histories with claims / re-claims / shared NAMEs / claims inside fast-packet messages on a virtual wall clock across the 10-minute discovery boundary; reference source map; safety rules R1-R3 per input and listener (completeness is counted, not judged; the discovery window's length is measured on the tree, DESIGN 9.8); one run in twelve is a client-level netsim session in which identities and the manufacturer filter must survive a reconnect",
         "identity attributes from an isolated decode of the same claim frame, NAME computed independently; unknown manufacturers and unclaimed sources after the window only judged for R1"),
 "C12": ("netsim", "3.C12", "virtual-time asyncio simulation of each real client against a simulated gateway: seeded packet streams x arbitrary segmentation x callback failures/delays, callback sequence compared with a synchronous reference decode",
         "packet-aligned EByte streams; busy sentinel, >64 KiB lines and EOF excluded (C13)"),
 "C13": ("netsim", "3.C13", "fault scripts on the simulated gateway (refuse/fail xk, EOF, EOF mid-packet, reset, accept-then-EOF, garbage-then-EOF, busy sentinel, failing write, over-long lines, outages of > 1000 refusals) at planned points, sweep of a fault at every loop iteration after accept; status/attempt/heartbeat traces; bounded liveness max(120 virtual s, 3 x the client's own longest retry wait) after the last fault; stall detection at the I/O seam",
         "no number of the implementation is used: 'capped' = never above 3600 s, 'growing' = fifth delay >= 1.2 x first, 'never zero' = >= 10 ms (DESIGN 9.8); write fault = connection_lost(exc) scheduled by the failing write"),
 "C14": ("netsim", "3.C14", "close()/connect()/send() injected at arbitrary loop iterations and virtual times of every session shape (also from inside the status and receive callbacks), sweep of close() at every iteration of base sessions; state sampled every iteration; gateway-side observations; task life-times; double execution for raising status callbacks",
         "an in-flight attempt may complete if shut within 5 virtual s and never reported; 'tasks finish' judged by continuing the simulation to quiescence, no deadline (DESIGN 9.8)"),
 "C15": ("bussim", "3.C15", "dump file behind an in-memory file-system seam over bus histories with dump/PGN filter configurations; per-message JSON monitor (validity, from_json equivalence, re-encoding) over all 418 definitions with boundary-biased payloads",
         "dump ids offered in database case; no write faults; JSON half is input-sampled"),
 "C16": ("bussim", "3.C16", "interleaved multi-instance operation histories with junk inputs executed in forked children and compared with solo replays in pristine processes (I1), junk-free runs (I2), fresh-decoder probes (I3), configuration/encoder-counter checks (I4) and double execution (I5)",
         "worker processes never execute library code themselves, so every child starts from pristine module state"),
 "C19": ("netsim", "3.C19", "concurrent send() tasks with simulated flow control suspending drain(), unsendable messages, failing writes, read-side faults while sends are queued, callers that time out; byte stream recorded at the gateway parsed per source address and compared with a reference encoder (sequence counter masked)",
         "write fault = connection_lost(exc) scheduled by the failing write; C13's oracles reused for recovery"),
 "C20": ("netsim", "3.C20", "noisy serial streams (valid, corrupted, truncated packets; marker-free / marker-bearing / AA-ending noise up to 16 KiB, 1 MiB in thorough) under arbitrary segmentation; window oracle (N1), resynchronisation oracle (N2), retained-bytes bound sampled every loop iteration (N3)",
         "retained bytes measured generically over the client's instance attributes; bound 256 bytes"),
}
NA = {
 "C01": "pure function payload -> message per generated decoder: no schedule, clock, fault, history or second party; simulating it would be input generation in simulator vocabulary (a differential / bounded-exhaustive check against canboat.json is the right tool)",
 "C02": "pure composition encode(decode(payload)) on one payload: no schedule, fault or history dimension",
 "C05": "pure bijection on 29-bit identifiers; the stated check is an exhaustive enumeration of 2^29 values, not seeded search over schedules or faults",
 "C08": "pure function of the payload's match-field bits per generated dispatcher: no history, schedule or fault",
 "C09": "pure function field assignment -> payload or error: no history, schedule or fault",
 "C17": "pure function of (definition id, primary-key raw values); 'every process' is hash-seed independence of MD5 over a string, not a schedule or fault",
 "C18": "pure per-field function of (value, physical quantity, preference map)",
}
m = {
 "version": 1,
 "setup_cmd": "./vcheck selftest smoke",
 "hooks": {"guard": "NMEA2000_VERIF",
           "enable": "no source hooks were needed: the simulator enters through seams the code already has (the running event loop, asyncio.open_connection -> loop.create_connection, serial_asyncio.open_serial_connection, the module-level names datetime/open/os in nmea2000.decoder, codec lookup by name in nmea2000.encoder). vcheck exports NMEA2000_VERIF=1 for uniformity; nothing in /repo reads it.",
           "baseline_off_cmd": "cd /repo && /venv/bin/python -m pytest -q -p no:cacheprovider --timeout=900",
           "source_commits": [], "add_only": True},
 "engines": [
  {"name": "netsim", "path": "sim/loop.py sim/net.py sim/loopback.py", "serves_properties": ["C06", "C12", "C13", "C14", "C19", "C20"],
   "kind_free_text": "deterministic simulation: virtual-time asyncio event loop (own selector, clock and simulator event queue), simulated TCP/serial transport and gateway with seeded fault injection; real client classes, real asyncio streams, real tenacity"},
  {"name": "bussim", "path": "sim/bus.py sim/bustraffic.py sim/fs.py sim/clock.py", "serves_properties": ["C03", "C04", "C07", "C10", "C11", "C15", "C16"],
   "kind_free_text": "deterministic simulation: synchronous CAN-bus histories with faults already applied, independent format gateways, virtual wall clock, in-memory dump file system; real decoder/encoder instances as listeners"}],
 "checks": [],
 "not_applicable": [{"property_id": k, "reason": v} for k, v in NA.items()],
 "notes": "All checks: ./vcheck run <ID> [--tier quick|thorough]; VERIF_SEED, VERIF_TIER, VERIF_REPO, VERIF_JOBS honoured. Exit 0 held / 1 VIOLATION / 2 harness error. Replays under out/replays. known_findings.json lists thirteen defects found by these checks and repaired in /repo with 'fix:' commits (all status fixed: nothing is suppressed)."
}
for pid, (engine, ref, text, note) in CHECKS.items():
    m["checks"].append({
        "property_id": pid,
        "quick_cmd": "./vcheck run %s --tier quick" % pid,
        "thorough_cmd": "./vcheck run %s --tier thorough" % pid,
        "evidence_file": "evidence/%s.json" % pid,
        "replay_cmd_template": "./vcheck replay {path}",
        "engine": engine,
        "level_claimed": {"category": "exploration", "text": text + ". Seeded search: a clean batch is evidence, not proof.", "design_ref": ref},
        "level_note": note,
        "technique": "deterministic simulation with fault injection (%s)" % engine})
json.dump(m, open("MANIFEST.json", "w"), indent=1)
print("ok", len(m["checks"]))
