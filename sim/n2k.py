"""Independent NMEA 2000 / gateway wire-format helpers (simulator side).

Written from the format documents, *not* from the library's encoder, so that the
simulated devices and gateways are an independent party.
"""

CLAIM_PGN = 60928


def can_id(pgn, src, dst=255, prio=3):
    """29-bit identifier per ISO 11783-3: prio(3) | R,DP (2) | PF (8) | PS (8) | SA (8)."""
    pf = (pgn >> 8) & 0xFF
    dp = (pgn >> 16) & 0x3
    if pf < 240:
        ps = dst & 0xFF
    else:
        ps = pgn & 0xFF
    return ((prio & 7) << 26) | (dp << 24) | (pf << 16) | (ps << 8) | (src & 0xFF)


def split_id(idn):
    src = idn & 0xFF
    ps = (idn >> 8) & 0xFF
    pf = (idn >> 16) & 0xFF
    dp = (idn >> 24) & 0x3
    prio = (idn >> 26) & 0x7
    if pf < 240:
        return (dp << 16) | (pf << 8), src, ps, prio
    return (dp << 16) | (pf << 8) | ps, src, 255, prio


def fast_frames(payload, seq, pad=None):
    """Split a payload (0..223 bytes) into fast-packet frames.

    pad: None -> short frames stay short; int -> pad every frame to 8 data bytes
    with that byte value (what real devices do, usually 0xFF).
    """
    L = len(payload)
    chunks = [payload[:6]] + [payload[i:i + 7] for i in range(6, L, 7)]
    out = []
    for i, c in enumerate(chunks):
        f = bytes([((seq & 7) << 5) | i]) + (bytes([L]) if i == 0 else b"") + c
        if pad is not None and len(f) < 8:
            f += bytes([pad]) * (8 - len(f))
        out.append(f)
    return out


def n_frames(L):
    return 1 if L <= 6 else 1 + (L - 6 + 6) // 7


# ---- gateway wire formats ------------------------------------------------------

def wire_ebyte(idn, data):
    """ECAN-E01/W01 transparent frame: 13 bytes = info byte, 4 id bytes big-endian, 8 data bytes."""
    return bytes([0x80 | len(data)]) + idn.to_bytes(4, "big") + data + bytes(8 - len(data))


def usb_checksum(pkt):
    return sum(pkt[2:19]) & 0xFF


def wire_usb(idn, data):
    """Waveshare USB-CAN-A fixed 20-byte frame."""
    b = bytes([0xAA, 0x55, 0x01, 0x02, 0x01]) + idn.to_bytes(4, "little") + bytes([len(data)]) \
        + data + bytes(8 - len(data)) + b"\x00"
    return b + bytes([usb_checksum(b)])


def wire_yd(idn, data, direction="R", lower=False, ts="00:01:54.430"):
    """Yacht Devices RAW: 'hh:mm:ss.mmm D xxxxxxxx dd dd ...<CR><LF>'."""
    ids = "%08X" % idn
    ds = " ".join("%02X" % b for b in data)
    if lower:
        ids, ds = ids.lower(), ds.lower()
    return ("%s %s %s %s\r\n" % (ts, direction, ids, ds)).encode()


def yd_line(idn, data, direction="R", lower=False, ts="00:01:54.430"):
    return wire_yd(idn, data, direction, lower, ts).decode().strip()


def plain_line(pgn, src, dst, prio, data, z=False, ts=None):
    """canboat plain: timestamp,prio,pgn,src,dst,len,b0,b1,..."""
    if ts is None:
        ts = "2022-09-28T11:36:59.668Z" if z else "2022-09-28-11:36:59.668"
    return "%s,%d,%d,%d,%d,%d,%s" % (ts, prio, pgn, src, dst, len(data), ",".join("%02x" % b for b in data))


def actisense_line(pgn, src, dst, prio, payload, ts="A000123.456"):
    """Actisense N2K ASCII: 'Ahhmmss.ddd <src><dst><prio> <pgn> <payload hex>'."""
    return "%s %02X%02X%X %05X %s" % (ts, src, dst, prio, pgn, payload.hex().upper())


# ---- ISO address claim ---------------------------------------------------------

def claim_payload(unique, mfg, inst_lo=0, inst_hi=0, function=130, dev_class=25, sys_inst=0,
                  industry=4, aac=1):
    """64-bit NAME per ISO 11783-5, little-endian on the wire."""
    name = (unique & 0x1FFFFF) | ((mfg & 0x7FF) << 21) | ((inst_lo & 7) << 32) | ((inst_hi & 0x1F) << 35) \
        | ((function & 0xFF) << 40) | (0 << 48) | ((dev_class & 0x7F) << 49) | ((sys_inst & 0xF) << 56) \
        | ((industry & 7) << 60) | ((aac & 1) << 63)
    return name.to_bytes(8, "little"), name
