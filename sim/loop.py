"""Virtual-time asyncio event loop.

`SimLoop` keeps asyncio's own `_run_once` (FIFO ready queue, timer heap) and only
replaces the selector and the clock.  Simulator events (chunk deliveries, EOF,
resets, resume-writing, connect completions, injected user operations) live in an
own heap keyed by (virtual time, sequence number) -- a total order -- and are
handed to the loop with `call_soon` from inside the fake `select()`.
"""
import asyncio
import heapq


class SimStall(BaseException):
    """A task performed an absurd number of I/O calls inside one loop iteration."""


class SimDeadlock(Exception):
    """Nothing is runnable, no timer and no simulator event is pending."""


class WallTimeout(KeyboardInterrupt):
    """Raised from a SIGALRM handler: the run exceeded its wall-clock budget."""


CPU_TICK = 1e-6          # virtual cost of one loop iteration
IO_BUDGET = 50_000       # simulated I/O calls allowed inside one loop iteration


class SimSelector:
    def __init__(self, loop):
        self.loop = loop

    def select(self, timeout):
        l = self.loop
        l.iters += 1
        l.iocalls = 0
        for hook in l.step_hooks:
            hook(l.iters)
        q = l.q
        if q and (timeout is None or q[0][0] <= l.vt + timeout):
            t = q[0][0]
            if t > l.vt:
                l.vt = t
            while q and q[0][0] <= t:
                _, _, fn, args = heapq.heappop(q)
                l.call_soon(fn, *args)
            l.vt += CPU_TICK
            return []
        if timeout is None:
            raise SimDeadlock("nothing runnable, no timer, no simulator event")
        l.vt += timeout if timeout > CPU_TICK else CPU_TICK
        return []

    def close(self):
        pass


class SimLoop(asyncio.BaseEventLoop):
    def __init__(self):
        super().__init__()
        self.vt = 0.0
        self.iters = 0
        self.iocalls = 0
        self.stalled = []            # [(iteration, vt, where)]
        self.q = []                  # simulator events
        self.seq = 0
        self.step_hooks = []
        self._selector = SimSelector(self)
        self.net = None              # object answering create_connection
        self.task_log = []           # [(task, harness?)]
        self._task_n = 0
        self.harness_spawn = False
        self.set_task_factory(self._factory)

    # -- clock -----------------------------------------------------------------
    def time(self):
        return self.vt

    # -- selector plumbing that has nothing to do ------------------------------
    def _process_events(self, event_list):
        pass

    def _write_to_self(self):
        pass

    # -- simulator event queue -------------------------------------------------
    def sim_at(self, t, fn, *args):
        self.seq += 1
        heapq.heappush(self.q, (t, self.seq, fn, args))

    def sim_after(self, d, fn, *args):
        self.sim_at(self.vt + d, fn, *args)

    async def sim_sleep(self, d):
        f = self.create_future()
        self.sim_after(d, _wake, f)
        await f

    # -- I/O accounting (stall detection) --------------------------------------
    def io(self, where):
        self.iocalls += 1
        if self.iocalls > IO_BUDGET:
            self.stalled.append((self.iters, self.vt, where))
            self.iocalls = 0
            raise SimStall(where)

    # -- tasks -----------------------------------------------------------------
    def _factory(self, loop, coro, **kw):
        self._task_n += 1
        harness = self.harness_spawn
        kw.pop("name", None)
        name = ("H%d" if harness else "S%d") % self._task_n
        t = asyncio.Task(coro, loop=loop, name=name, **kw)
        self.task_log.append((t, harness))
        return t

    def spawn(self, coro):
        """Create a task on behalf of the harness (not the system under test)."""
        self.harness_spawn = True
        try:
            return self.create_task(coro)
        finally:
            self.harness_spawn = False

    # -- network seam ------------------------------------------------------------
    async def create_connection(self, protocol_factory, host=None, port=None, **kw):
        self.io("create_connection")
        return await self.net.tcp_connect(protocol_factory, host, port)


def _wake(f):
    if not f.done():
        f.set_result(None)


# ------------------------------------------------------------------------------
# Class-level instrumentation of asyncio.StreamReader: counts read calls for the
# stall detector and tracks which tasks are inside a read (one receive path).
# Installed once per process; inert when the running loop is not a SimLoop.
# ------------------------------------------------------------------------------
_installed = False
readers_active = {}      # task -> depth


def install_reader_probe():
    global _installed
    if _installed:
        return
    _installed = True
    SR = asyncio.StreamReader

    def wrap(name):
        orig = getattr(SR, name)

        async def probe(self, *a, **kw):
            loop = self._loop
            if not isinstance(loop, SimLoop):
                return await orig(self, *a, **kw)
            loop.io("StreamReader." + name)
            t = asyncio.current_task()
            readers_active[t] = readers_active.get(t, 0) + 1
            try:
                return await orig(self, *a, **kw)
            finally:
                n = readers_active.get(t, 1) - 1
                if n <= 0:
                    readers_active.pop(t, None)
                else:
                    readers_active[t] = n
        probe.__name__ = name
        setattr(SR, name, probe)

    for n in ("read", "readline", "readexactly", "readuntil"):
        wrap(n)
