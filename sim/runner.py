"""Parallel seeded driver: plans -> executions -> violations -> minimise -> replay -> evidence."""
import concurrent.futures as cf
import faulthandler
import hashlib
import importlib
import json
import multiprocessing
import os
import random
import signal
import subprocess
import sys
import time
import traceback

from .loop import WallTimeout
from . import minimise as mini

VERIF = os.path.dirname(os.path.dirname(os.path.abspath(__file__)))
REPO = os.environ.get("VERIF_REPO", "/repo")
OUT = os.path.join(VERIF, "out")
REPLAYS = os.path.join(OUT, "replays" if not os.environ.get("VERIF_NO_EVIDENCE") else "replays-scratch")
EVIDENCE = os.path.join(VERIF, "evidence")
KNOWN = os.path.join(VERIF, "known_findings.json")

RUN_WALL_LIMIT = 120.0     # seconds of wall clock one run may take before it is called a hang

PROPS = ["C03", "C04", "C06", "C07", "C10", "C11", "C12", "C13", "C14", "C15", "C16", "C19", "C20"]


def load_prop(pid):
    return importlib.import_module("props." + pid.lower())


def run_seed(seed, pid, idx):
    h = hashlib.sha256(("%d:%s:%d" % (seed, pid, idx)).encode()).digest()
    return int.from_bytes(h[:8], "big")


# ------------------------------------------------------------------------------
# one execution, guarded by a wall-clock alarm
# ------------------------------------------------------------------------------
def _alarm(signum, frame):
    raise WallTimeout("run exceeded %.0f s of wall clock" % RUN_WALL_LIMIT)


class LibraryCrash(Exception):
    """Raised by a property module when library code failed inside a child process (C16)."""


def crash_outcome(pid, what):
    return {"violations": [{"check": pid + ".crash", "event": -1,
                            "msg": "the library raised %s through a call the simulation makes with valid arguments" % what}],
            "digest": "crash", "stats": {"library_exception": 1}, "nontrivial": False, "vtime": 0.0}


def guarded_execute(mod, plan):
    """Execute one plan; a wall-clock overrun is reported as a `<ID>.hang` violation."""
    old = signal.signal(signal.SIGALRM, _alarm)
    signal.setitimer(signal.ITIMER_REAL, RUN_WALL_LIMIT)
    # the library draws no randomness today; should it start to (jittered back-off, random start counter ...), the
    # global generator is part of the run: seeded from the plan so that a replay repeats it
    random.seed("%s:%s" % (plan.get("_seed"), plan.get("_idx")))
    try:
        try:
            out = mod.execute(plan)
        finally:
            signal.setitimer(signal.ITIMER_REAL, 0)
    except LibraryCrash as e:
        out = crash_outcome(mod.ID, str(e))
    except Exception as exc:
        # An exception *raised by the library* (innermost frame under the tree being checked) that escaped through a
        # public call the simulation makes with valid arguments is reported as a violation of the property being
        # exercised; anything raised by the harness itself stays a harness error (exit 2, no VIOLATION line).
        tb = traceback.extract_tb(exc.__traceback__)
        inner = tb[-1].filename if tb else ""
        if not inner.startswith(os.path.join(os.path.abspath(REPO), "nmea2000")):
            raise
        out = crash_outcome(mod.ID, "%s: %s at %s:%d (%s)" % (type(exc).__name__, str(exc)[:120], os.path.basename(inner),
                                                              tb[-1].lineno, tb[-1].name))
    except WallTimeout as e:
        out = {"violations": [{"check": mod.ID + ".hang", "event": -1,
                               "msg": "execution did not finish: %s" % e}],
               "digest": "hang", "stats": {"hang": 1}, "nontrivial": False, "vtime": 0.0}
    finally:
        signal.signal(signal.SIGALRM, old)
    return out


def first_violation(out):
    v = out.get("violations") or []
    if not v:
        return None
    return sorted(v, key=lambda x: (x.get("event", 0) if x.get("event", 0) >= 0 else 1 << 60, x["check"]))[0]


# ------------------------------------------------------------------------------
# worker
# ------------------------------------------------------------------------------
def _work(pid, tier, seed, kind, items):
    """kind == 'gen': items are run indices; kind == 'plan': items are explicit plans (sweeps)."""
    faulthandler.enable()
    mod = load_prop(pid)
    agg = {"n": 0, "stats": {}, "digests": set(), "vtime": 0.0, "viol": [], "errors": [], "nontrivial": 0,
           "samples": []}
    for it in items:
        try:
            if kind == "gen":
                idx = it
                rs = run_seed(seed, pid, idx)
                plan = mod.gen(random.Random(rs), idx, tier)
                plan["_seed"] = rs
                plan["_idx"] = idx
            else:
                idx, plan = it
            out = guarded_execute(mod, plan)
        except Exception:
            agg["errors"].append((it if kind == "gen" else it[0], traceback.format_exc()))
            continue
        agg["n"] += 1
        for k, v in (out.get("stats") or {}).items():
            agg["stats"][k] = agg["stats"].get(k, 0) + v
        agg["vtime"] += out.get("vtime", 0.0)
        if out.get("nontrivial"):
            agg["nontrivial"] += 1
            agg["digests"].add(out["digest"][:16])
            if len(agg["samples"]) < 1:
                agg["samples"].append(plan)
        fv = first_violation(out)
        if fv is not None and len(agg["viol"]) < 6:
            agg["viol"].append({"idx": idx, "plan": plan, "violation": fv, "digest": out["digest"],
                                "all_checks": sorted({v["check"] for v in out["violations"]})})
    return agg


def _seam(pid):
    mod = load_prop(pid)
    if hasattr(mod, "prime"):
        mod.prime()
    try:
        return mod.seam_check()
    except Exception:
        return "seam check raised:\n" + traceback.format_exc()


# ------------------------------------------------------------------------------
# driver
# ------------------------------------------------------------------------------
def tree_id():
    try:
        r = subprocess.run(["git", "-C", REPO, "rev-parse", "--short", "HEAD"], capture_output=True, text=True, timeout=10)
        d = subprocess.run(["git", "-C", REPO, "status", "--porcelain", "--untracked-files=no"], capture_output=True,
                           text=True, timeout=10)
        return r.stdout.strip() + ("+dirty" if d.stdout.strip() else "")
    except Exception:
        return "unknown"


def load_known():
    try:
        with open(KNOWN) as f:
            return json.load(f).get("findings", [])
    except FileNotFoundError:
        return []


def match_known(pid, violation, plan, known):
    for k in known:
        if k.get("property") != pid or k.get("status") != "open":
            continue
        sig = k.get("signature", {})
        if sig.get("check") and not violation["check"].startswith(sig["check"]):
            continue
        if sig.get("client") and plan.get("client") != sig["client"]:
            continue
        if sig.get("contains") and sig["contains"] not in violation.get("msg", ""):
            continue
        return k
    return None


def run_check(pid, tier, seed, jobs=None, budget=None, runs=None, quiet=False, collect=None):
    t0 = time.monotonic()
    mod = load_prop(pid)
    if hasattr(mod, "prime"):
        mod.prime()
    if hasattr(mod, "seam_check"):
        # Seam drift (the code no longer reaches the simulator through the seams the harness uses) is a harness error:
        # exit 2, no VIOLATION line.  It runs in a forked child so that the parent stays pristine.
        try:
            with cf.ProcessPoolExecutor(max_workers=1, mp_context=multiprocessing.get_context("fork")) as ex1:
                drift = ex1.submit(_seam, pid).result(timeout=300)
        except Exception as e:
            drift = "seam check crashed: %r" % (e,)
        if drift:
            sys.stderr.write("HARNESS-ERROR: seam drift for %s: %s\n" % (pid, drift))
            return 2
    jobs = jobs or int(os.environ.get("VERIF_JOBS", "16"))
    n_runs = runs if runs is not None else mod.RUNS[tier]
    budget = budget if budget is not None else mod.BUDGET_S[tier]
    sweeps = list(mod.sweeps(tier, seed)) if hasattr(mod, "sweeps") else []
    batch = getattr(mod, "BATCH", 40)

    tasks = []
    for i in range(0, len(sweeps), batch):
        tasks.append(("plan", [(-(j + 1), sweeps[j]) for j in range(i, min(i + batch, len(sweeps)))]))
    for i in range(0, n_runs, batch):
        tasks.append(("gen", list(range(i, min(i + batch, n_runs)))))

    total = {"n": 0, "stats": {}, "digests": set(), "vtime": 0.0, "viol": [], "errors": [], "nontrivial": 0,
             "samples": []}
    harness_error = None
    ctx = multiprocessing.get_context("fork")
    skipped = 0
    with cf.ProcessPoolExecutor(max_workers=jobs, mp_context=ctx) as ex:
        pending = {}
        it = iter(tasks)
        exhausted = False

        def submit_more():
            nonlocal exhausted, skipped
            while len(pending) < jobs * 2 and not exhausted:
                if time.monotonic() - t0 > budget:
                    rest = sum(1 for _ in it)
                    skipped += rest
                    exhausted = True
                    break
                try:
                    kind, items = next(it)
                except StopIteration:
                    exhausted = True
                    break
                f = ex.submit(_work, pid, tier, seed, kind, items)
                pending[f] = (kind, items)
        submit_more()
        while pending:
            done, _ = cf.wait(list(pending), timeout=RUN_WALL_LIMIT * batch + 120, return_when=cf.FIRST_COMPLETED)
            if not done:
                harness_error = "worker batch did not finish in time"
                for f in pending:
                    f.cancel()
                break
            for f in done:
                pending.pop(f)
                try:
                    agg = f.result()
                except Exception as e:      # BrokenProcessPool etc.
                    harness_error = "worker failed: %r" % (e,)
                    continue
                total["n"] += agg["n"]
                total["vtime"] += agg["vtime"]
                total["nontrivial"] += agg["nontrivial"]
                total["digests"] |= agg["digests"]
                for k, v in agg["stats"].items():
                    total["stats"][k] = total["stats"].get(k, 0) + v
                total["viol"].extend(agg["viol"])
                total["errors"].extend(agg["errors"])
                if len(total["samples"]) < 3:
                    total["samples"].extend(agg["samples"][:1])
            if harness_error and "worker failed" in harness_error:
                break
            submit_more()
    explore_wall = time.monotonic() - t0
    if collect is not None:
        collect["digests"] = set(total["digests"])
        collect["n"] = total["n"]
        collect["nontrivial"] = total["nontrivial"]

    # ---- violations: one report per distinct check id -------------------------
    known = load_known()
    by_check = {}
    for v in sorted(total["viol"], key=lambda v: (v["idx"] < 0 and -1 or 0, abs(v["idx"]))):
        by_check.setdefault(v["violation"]["check"], v)
    lines = []
    new_violations = 0
    known_hits = 0
    os.makedirs(REPLAYS, exist_ok=True)
    for fn in os.listdir(REPLAYS):
        if fn.startswith(pid + "-"):
            os.unlink(os.path.join(REPLAYS, fn))
    min_deadline = time.monotonic() + getattr(mod, "MINIMISE_WALL", 90.0)
    reported = []
    for check in sorted(by_check):
        v = by_check[check]
        k = match_known(pid, v["violation"], v["plan"], known)
        if k is not None:
            known_hits += 1
            lines.append("KNOWN-FINDING: property=%s %s" % (pid, k.get("description", check)))
            continue
        plan = v["plan"]
        remaining = min_deadline - time.monotonic()
        used = 0
        if remaining > 5 and not check.endswith(".hang"):
            def fails(cand, check=check):
                out = guarded_execute(mod, cand)
                return any(x["check"] == check for x in out.get("violations") or [])
            try:
                plan, used = mini.minimise(plan, fails, getattr(mod, "SHRINK_PATHS", []),
                                           getattr(mod, "simplify", None), max_exec=400,
                                           max_wall=min(remaining, 45.0))
            except Exception:
                plan = v["plan"]
        out = guarded_execute(mod, plan)
        fv = next((x for x in out.get("violations") or [] if x["check"] == check), None)
        if fv is None:           # minimised plan does not reproduce: fall back to the original
            plan = v["plan"]
            out = guarded_execute(mod, plan)
            fv = next((x for x in out.get("violations") or [] if x["check"] == check), v["violation"])
        path = os.path.join(REPLAYS, "%s-%s-%d.json" % (pid, check.replace("/", "_"), plan.get("_seed", 0) % 10**10))
        with open(path, "w") as f:
            json.dump({"version": 1, "property": pid, "engine": mod.ENGINE, "seed": seed,
                       "run_seed": plan.get("_seed"), "plan": plan, "violation": fv, "digest": out["digest"],
                       "minimise_executions": used, "tree": tree_id()}, f, indent=1, sort_keys=True)
        new_violations += 1
        reported.append({"check": check, "msg": fv.get("msg"), "replay": path})
        lines.append("VIOLATION property=%s replay=%s" % (pid, path))
        lines.append("  check=%s event=%s: %s" % (check, fv.get("event"), fv.get("msg")))

    wall = time.monotonic() - t0
    # ---- evidence ------------------------------------------------------------------
    distinct = len(total["digests"])
    ev = {
        "property_id": pid,
        "tier": tier,
        "seed": seed,
        "level": getattr(mod, "LEVEL", "exploration"),
        "wall_s": round(wall, 3),
        "violations": new_violations,
        "coverage": {
            "evaluations": total["n"],
            "distinct_nontrivial": distinct,
            "rule": mod.RULE,
            "samples": [_abbrev(mod, p) for p in total["samples"][:3]],
            "exhaustive": False,
            "sweep_plans": len(sweeps),
            "exhaustive_dimensions": getattr(mod, "EXHAUSTIVE", {}).get(tier, "none"),
            "seeded_runs_requested": n_runs,
            "runs_skipped_for_wall_budget": skipped * batch if skipped else 0,
            "nontrivial_runs": total["nontrivial"],
            "runs_per_hour": int(total["n"] / max(explore_wall, 1e-9) * 3600),
            "simulated_seconds": round(total["vtime"], 1),
            "fault_and_probe_counters": dict(sorted(total["stats"].items())),
            "known_findings_seen": known_hits,
            "violations_reported": reported,
            "jobs": jobs,
            "real_components": mod.REAL,
            "stub_components": mod.STUB,
            "tree": tree_id(),
        },
        "assumptions": mod.ASSUMPTIONS,
    }
    os.makedirs(EVIDENCE, exist_ok=True)
    if total["n"] > 0 and not os.environ.get("VERIF_NO_EVIDENCE"):
        with open(os.path.join(EVIDENCE, pid + ".json"), "w") as f:
            json.dump(ev, f, indent=1, sort_keys=True)

    if not quiet:
        print("%s tier=%s seed=%d runs=%d (nontrivial %d, distinct %d) sweeps=%d vtime=%.0fs wall=%.1fs" %
              (pid, tier, seed, total["n"], total["nontrivial"], distinct, len(sweeps), total["vtime"], wall))
        for l in lines:
            print(l)
    if total["errors"]:
        sys.stderr.write("HARNESS-ERROR: %d executions raised inside the harness; first:\n%s\n" %
                         (len(total["errors"]), total["errors"][0][1]))
        return 2 if not new_violations else 1
    if harness_error:
        sys.stderr.write("HARNESS-ERROR: %s\n" % harness_error)
        return 2 if not new_violations else 1
    if total["n"] == 0:
        sys.stderr.write("HARNESS-ERROR: nothing was executed\n")
        return 2
    return 1 if new_violations else 0


def _abbrev(mod, plan):
    if hasattr(mod, "describe"):
        try:
            return mod.describe(plan)
        except Exception:
            pass
    s = json.dumps(plan, sort_keys=True)
    return json.loads(s) if len(s) < 3000 else {"abbreviated": s[:3000] + "..."}


def replay(path):
    with open(path) as f:
        rp = json.load(f)
    pid = rp["property"]
    mod = load_prop(pid)
    if hasattr(mod, "prime"):
        mod.prime()
    out = guarded_execute(mod, rp["plan"])
    want = rp["violation"]["check"]
    got = [v for v in out.get("violations") or [] if v["check"] == want]
    if got:
        same = out["digest"] == rp.get("digest")
        print("VIOLATION property=%s replay=%s" % (pid, path))
        print("  check=%s event=%s: %s" % (want, got[0].get("event"), got[0].get("msg")))
        print("  digest %s (%s)" % (out["digest"][:16], "identical to recorded run" if same else
                                     "differs from recorded run -- tree changed?"))
        return 1
    print("replay of %s did not reproduce %s (violations now: %s)" %
          (path, want, sorted({v["check"] for v in out.get("violations") or []})))
    return 0 if not out.get("violations") else 3
