"""Virtual wall clock: replaces the name `datetime` in nmea2000.decoder.

The decoder reads the wall clock for the start of its 10-minute discovery window
and for message timestamps (`datetime.now()`); `datetime.strptime` and everything
else keeps working because the replacement is a subclass.
"""
import datetime as _dt

_REAL = _dt.datetime                 # the genuine class, whatever the module attribute becomes later
EPOCH = _REAL(2024, 1, 1, 0, 0, 0)

_source = [None]     # callable returning virtual seconds, or None -> 0.0
_reads = [0]


class VirtualDateTime(_REAL):
    @classmethod
    def now(cls, tz=None):
        _reads[0] += 1
        src = _source[0]
        secs = src() if src is not None else 0.0
        # a plain datetime (not a subclass instance): consumers such as orjson only accept the exact type
        return EPOCH + _dt.timedelta(seconds=secs)

    @classmethod
    def utcnow(cls):
        return cls.now()

    @classmethod
    def strptime(cls, date_string, fmt):
        return _REAL.strptime(date_string, fmt)

    @classmethod
    def fromisoformat(cls, s):
        return _REAL.fromisoformat(s)

    @classmethod
    def fromtimestamp(cls, *a, **kw):
        return _REAL.fromtimestamp(*a, **kw)


def set_source(fn):
    _source[0] = fn


def install():
    """Idempotent: point nmea2000.decoder (and message defaults) at the virtual clock."""
    import nmea2000.decoder as dec
    if getattr(dec, "datetime", None) is not VirtualDateTime:
        dec.datetime = VirtualDateTime
    # also cover `import datetime; datetime.datetime.now()` spellings inside the library
    if _dt.datetime is not VirtualDateTime:
        _dt.datetime = VirtualDateTime
