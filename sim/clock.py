"""Virtual wall clock: replaces the name `datetime` in nmea2000.decoder.

The decoder reads the wall clock for the start of its 10-minute discovery window
and for message timestamps (`datetime.now()`); `datetime.strptime` and everything
else keeps working because the replacement is a subclass.
"""
import datetime as _dt

EPOCH = _dt.datetime(2024, 1, 1, 0, 0, 0)

_source = [None]     # callable returning virtual seconds, or None -> 0.0
_reads = [0]


class VirtualDateTime(_dt.datetime):
    @classmethod
    def now(cls, tz=None):
        _reads[0] += 1
        src = _source[0]
        secs = src() if src is not None else 0.0
        d = EPOCH + _dt.timedelta(seconds=secs)
        return cls(d.year, d.month, d.day, d.hour, d.minute, d.second, d.microsecond)

    @classmethod
    def utcnow(cls):
        return cls.now()


def set_source(fn):
    _source[0] = fn


def install():
    """Idempotent: point nmea2000.decoder (and message defaults) at the virtual clock."""
    import nmea2000.decoder as dec
    if getattr(dec, "datetime", None) is not VirtualDateTime:
        dec.datetime = VirtualDateTime
