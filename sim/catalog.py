"""Traffic catalogue built from the bundled canboat database (the specification) and,
for encodable fix-point messages, from the library's own codecs.

Everything here is generated with fixed seeds before workers fork, and whatever a plan
uses is copied *into* the plan (bytes / JSON), so replay never depends on this module's state.
"""
import json
import os
import random

REPO = os.environ.get("VERIF_REPO", "/repo")

_db = None
DEFS = []            # every definition: dict(pgn, id, fast, length, fields, match, fallback)
BY_PGN = {}          # pgn -> [defs]
SINGLE = []          # single-frame PGN numbers known to the library
FAST = []            # fast-packet PGN numbers known to the library
_fix = None


def load():
    global _db
    if _db is not None:
        return
    with open(os.path.join(REPO, "canboat.json")) as f:
        _db = json.load(f)
    import nmea2000.pgns as P
    for p in _db["PGNs"]:
        t = p["Type"]
        d = {"pgn": p["PGN"], "id": p["Id"], "type": t, "length": p.get("Length", 8),
             "fields": p.get("Fields", []), "fallback": bool(p.get("Fallback")),
             "match": [(f["BitOffset"], f["BitLength"], f["Match"]) for f in p.get("Fields", [])
                       if "Match" in f and "BitOffset" in f]}
        DEFS.append(d)
        BY_PGN.setdefault(d["pgn"], []).append(d)
    for pgn in sorted(BY_PGN):
        fn = getattr(P, "is_fast_pgn_%d" % pgn, None)
        if fn is None:
            continue
        try:
            fast = bool(fn())
        except Exception:
            continue            # PGN types the library refuses (ISO transport, mixed)
        for d in BY_PGN[pgn]:
            d["fast"] = fast
        (FAST if fast else SINGLE).append(pgn)


def payload_for(rng, d, length=None):
    """Random payload for definition d with its match fields set."""
    L = d["length"] if length is None else length
    if d.get("fast"):
        L = max(1, min(L, 223))
    else:
        L = max(1, min(L, 8))
    v = rng.getrandbits(8 * L)
    k = rng.random()
    if k < 0.15:
        v = (1 << (8 * L)) - 1          # everything "not available"
    elif k < 0.25:
        v = 0
    for off, ln, val in d["match"]:
        if off + ln <= 8 * L:
            v &= ~(((1 << ln) - 1) << off)
            v |= (val & ((1 << ln) - 1)) << off
    return v.to_bytes(L, "little")


def dst_for(pgn, rng=None):
    pf = (pgn >> 8) & 0xFF
    if pf < 240:
        return 255 if rng is None or rng.random() < 0.5 else rng.randrange(0, 255)
    return 255


def fixpoints():
    """[(json text, pgn, id, fast, payload hex)] of messages with decode(encode(m)) == m, fixed seed."""
    global _fix
    if _fix is not None:
        return _fix
    load()
    from nmea2000.decoder import NMEA2000Decoder
    from nmea2000.encoder import NMEA2000Encoder
    from . import msgs
    rng = random.Random(20240917)
    enc = NMEA2000Encoder()
    out = []
    for d in DEFS:
        if "fast" not in d:
            continue
        dec = NMEA2000Decoder()         # fresh per definition: no address-claim state leaks into other messages
        got = 0
        for attempt in range(12):
            if got >= 3:
                break
            pl = payload_for(rng, d)
            try:
                m = _decode_payload(dec, d, pl)
            except Exception:
                continue
            if m is None or m.id != d["id"]:
                continue
            try:
                text = enc.encode_actisense(m)
            except Exception:
                continue
            pl2 = act_payload(text)
            try:
                m2 = _decode_payload(dec, d, pl2)
                js = m.to_json()
                from nmea2000.message import NMEA2000Message
                m3 = NMEA2000Message.from_json(js)
                pl3 = act_payload(enc.encode_actisense(m3))
            except Exception:
                continue
            if m2 is None or msgs.key(m2, iso=False) != msgs.key(m, iso=False) or pl3 != pl2 or len(pl2) == 0:
                continue            # (a definition whose encoder emits an empty payload cannot ride on any frame format)
            m2.source_iso_name = None
            # the canonical form is what the encoder emits
            try:
                js2 = m2.to_json()
            except Exception:
                continue
            out.append({"json": js2, "pgn": d["pgn"], "id": d["id"], "fast": d["fast"], "payload": pl2.hex()})
            got += 1
    _fix = out
    return out


def act_payload(text):
    parts = text.split()
    return bytes.fromhex(parts[2]) if len(parts) > 2 else b""


def _decode_payload(dec, d, pl):
    dst = 255
    line = "2022-09-28-11:36:59.668,3,%d,1,%d,%d,%s" % (d["pgn"], dst, len(pl), ",".join("%02x" % b for b in pl))
    return dec.decode_basic_string(line, True)
