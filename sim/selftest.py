"""Self-tests of the machinery: smoke (setup_cmd), determinism."""
import hashlib
import json
import os
import random
import subprocess
import sys
import time

from . import runner


def smoke():
    """Import the tree, one run per property, schema-check an evidence file."""
    t0 = time.time()
    bad = 0
    for pid in runner.PROPS:
        mod = runner.load_prop(pid)
        if hasattr(mod, "prime"):
            mod.prime()
        plan = mod.gen(random.Random(runner.run_seed(0, pid, 0)), 0, "quick")
        out = runner.guarded_execute(mod, plan)
        ok = isinstance(out.get("digest"), str) and isinstance(out.get("violations"), list)
        print("smoke %s: %s (%d violations on one run)" % (pid, "ok" if ok else "BROKEN", len(out.get("violations") or [])))
        bad += 0 if ok else 1
    print("smoke: %d properties, %.1fs" % (len(runner.PROPS), time.time() - t0))
    return 2 if bad else 0


def digests(pids, n, seed):
    out = {}
    for pid in pids:
        mod = runner.load_prop(pid)
        if hasattr(mod, "prime"):
            mod.prime()
        h = hashlib.sha256()
        for idx in range(n):
            plan = mod.gen(random.Random(runner.run_seed(seed, pid, idx)), idx, "quick")
            o = runner.guarded_execute(mod, plan)
            h.update(o["digest"].encode())
            h.update(json.dumps(sorted((v["check"], v.get("event")) for v in o["violations"])).encode())
        out[pid] = h.hexdigest()
    return out


def determinism(n, seed, pids=None):
    """Every seed twice in this process, once more in a fresh interpreter under another PYTHONHASHSEED."""
    pids = pids or runner.PROPS
    a = digests(pids, n, seed)
    b = digests(pids, n, seed)
    env = dict(os.environ, PYTHONHASHSEED="12345", VERIF_SEED=str(seed))
    r = subprocess.run([sys.executable, os.path.join(runner.VERIF, "vcheck.py"), "selftest", "digests", "--n", str(n)] +
                       (["--props", ",".join(pids)] if pids else []),
                       env=env, capture_output=True, text=True, timeout=3600)
    try:
        c = json.loads(r.stdout.strip().splitlines()[-1])
    except Exception:
        print("determinism: fresh interpreter failed:\n" + r.stdout[-2000:] + r.stderr[-2000:])
        return 2
    bad = 0
    for pid in pids:
        ok = a[pid] == b[pid] == c.get(pid)
        print("determinism %s: %s  (%d seeds x {same process twice, fresh interpreter PYTHONHASHSEED=12345})" %
              (pid, "identical" if ok else "DIVERGED", n))
        if not ok:
            print("   first pass %s / second pass %s / fresh interpreter %s" % (a[pid][:16], b[pid][:16], str(c.get(pid))[:16]))
        bad += 0 if ok else 1
    return 2 if bad else 0


def jobs_independence(n, seed, pids=None):
    """The set of run digests must not depend on how runs are batched over worker processes."""
    pids = pids or runner.PROPS
    os.environ["VERIF_NO_EVIDENCE"] = "1"
    bad = 0
    for pid in pids:
        a, b = {}, {}
        runner.run_check(pid, "quick", seed, jobs=1, runs=n, budget=3600, quiet=True, collect=a)
        runner.run_check(pid, "quick", seed, jobs=16, runs=n, budget=3600, quiet=True, collect=b)
        ok = a["digests"] == b["digests"] and a["n"] == b["n"]
        print("jobs-independence %s: %s (%d runs, %d distinct non-trivial digests; 1 worker vs 16 workers)" %
              (pid, "identical" if ok else "DIVERGED", a["n"], len(a["digests"])))
        bad += 0 if ok else 1
    return 2 if bad else 0


def main(what, n, seed, props=None):
    pids = props.split(",") if props else None
    if what == "smoke":
        return smoke()
    if what == "digests":
        print(json.dumps(digests(pids or runner.PROPS, n, seed)))
        return 0
    if what == "determinism":
        return determinism(n, seed, pids)
    if what == "jobs":
        return jobs_independence(n, seed, pids)
    print("unknown selftest", what)
    return 2
