"""Loop-back executor (C06): sender client A -> simulated gateway -> receiver client B.

A calls the real send(); whatever bytes reach the gateway are re-segmented by the
plan and forwarded to B (same client type), whose receive callback is observed.
The gateway does exactly what the real devices do and nothing more: binary formats
are forwarded byte for byte; the Yacht Devices gateway echoes each transmitted line
in its receive form (time and direction token prepended); for Actisense (no send path
in the client) it takes the encoder's text, prepends the time token and appends CR LF.
"""
import asyncio
import hashlib

from . import clock
from .loop import SimLoop, SimDeadlock, WallTimeout, install_reader_probe, readers_active
from .net import SimTransport, _Counter


class Loopback:
    def __init__(self, plan):
        self.plan = plan
        self.loop = SimLoop()
        self.loop.net = self
        self.trace = []
        self.fired = _Counter()
        self.conns = []
        self.recv = []
        self.crashed = None
        self.send_errors = []

    def ev(self, actor, kind, detail=None):
        n = len(self.trace)
        self.trace.append((n, self.loop.vt, self.loop.iters, actor, kind, detail))
        return n

    def _mk_conn(self, proto):
        conn = {"id": len(self.conns), "written": [], "closed_at": None, "fault": None, "delivered": 0, "w": {},
                "entry": {}, "attempt": len(self.conns), "at": self.loop.vt}
        t = SimTransport(self, proto, conn)
        conn["t"] = t
        self.conns.append(conn)
        proto.connection_made(t)
        return t

    async def tcp_connect(self, protocol_factory, host, port):
        await self.loop.sim_sleep(0.001)
        proto = protocol_factory()
        return self._mk_conn(proto), proto

    async def serial_connect(self, *a, **kw):
        loop = self.loop
        await loop.sim_sleep(0.001)
        reader = asyncio.StreamReader(loop=loop)
        proto = asyncio.StreamReaderProtocol(reader, loop=loop)
        t = self._mk_conn(proto)
        return reader, asyncio.StreamWriter(t, proto, reader, loop)

    def _client(self, kind):
        import nmea2000.ioclient as io
        if kind == "ebyte":
            return io.EByteNmea2000Gateway("sim-gw", 1)
        if kind == "yd":
            return io.YachtDevicesNmea2000Gateway("sim-gw", 1)
        if kind == "waveshare":
            return io.WaveShareNmea2000Gateway("/dev/sim")
        return io.ActisenseNmea2000Gateway("sim-gw", 1)

    async def _main(self):
        from nmea2000.message import NMEA2000Message
        from nmea2000.encoder import NMEA2000Encoder
        plan = self.plan
        kind = plan["client"]
        loop = self.loop
        b = self._client(kind)

        async def on_recv(m):
            self.recv.append((self.ev("cb", "recv", (len(self.recv), m.PGN, m.source)), m))
        b.set_receive_callback(on_recv)
        await b.connect()
        tb = self.conns[0]["t"]
        wire = b""
        self.sender_writes = []
        if kind == "actisense":
            enc = NMEA2000Encoder()
            for i, m in enumerate(plan["messages"]):
                msg = NMEA2000Message.from_json(m["json"])
                try:
                    text = enc.encode_actisense(msg)
                except Exception as e:
                    self.send_errors.append((i, repr(e)))
                    continue
                self.sender_writes.append((i, [text]))
                wire += ("A%06d.%03d " % (i, i % 1000)).encode() + text.encode() + b"\r\n"
        else:
            a = self._client(kind)
            await a.connect()
            ca = self.conns[1]
            skip = 1 if kind == "waveshare" else 0       # the serial client's configuration packet
            for i, m in enumerate(plan["messages"]):
                msg = NMEA2000Message.from_json(m["json"])
                n0 = len(ca["written"])
                await a.send(msg)
                self.sender_writes.append((i, [w[2] for w in ca["written"][n0:]]))
            raw = b"".join(w[2] for w in ca["written"][skip:])
            if kind == "yd":
                lines = raw.split(b"\r\n")
                tail = lines.pop()
                for j, ln in enumerate(lines):
                    wire += b"%02d:%02d:%02d.%03d R " % (j // 3600 % 24, j // 60 % 60, j % 60, j % 1000) + ln + b"\r\n"
                wire += tail
            else:
                wire = raw
            self.a_state = a.state.name
        self.wire = wire
        # forward to B under the planned segmentation
        chunks = plan.get("chunks") or []
        gaps = plan.get("gaps") or [1e-4]
        at = loop.vt + 0.001
        pos = 0
        i = 0
        while pos < len(wire):
            n = chunks[i] if i < len(chunks) else len(wire) - pos
            n = max(1, min(n, len(wire) - pos, 4096))
            at += gaps[i % len(gaps)]
            loop.sim_at(at, tb.deliver, wire[pos:pos + n])
            pos += n
            i += 1
        await loop.sim_sleep(at - loop.vt + 5.0)
        self.b_state = b.state.name

    def run(self):
        install_reader_probe()
        clock.install()
        loop = self.loop
        clock.set_source(lambda: loop.vt)
        import serial_asyncio
        old_serial = serial_asyncio.open_serial_connection
        serial_asyncio.open_serial_connection = self.serial_connect
        readers_active.clear()
        asyncio.set_event_loop(None)
        try:
            try:
                loop.run_until_complete(loop.spawn(self._main()))
            except SimDeadlock as e:
                self.crashed = "deadlock: %s" % e
            except WallTimeout as e:
                self.crashed = "wall: %s" % e
            pending = [t for t, _ in loop.task_log if not t.done()]
            for t in pending:
                t.cancel()
            n = 0
            while pending and n < 200:
                n += 1
                try:
                    loop.run_until_complete(asyncio.wait(pending, timeout=0.05))
                except (SimDeadlock, RuntimeError):
                    break
                pending = [t for t in pending if not t.done()]
            for t, _ in loop.task_log:
                if t.done() and not t.cancelled():
                    try:
                        t.exception()
                    except BaseException:
                        pass
        finally:
            serial_asyncio.open_serial_connection = old_serial
            clock.set_source(None)
            readers_active.clear()
            try:
                loop.close()
            except Exception:
                pass
        h = hashlib.sha256()
        for e in self.trace:
            h.update(repr(e).encode())
        self.digest = h.hexdigest()
        self.stalls = list(loop.stalled)
        self.end_vt = loop.vt
        return self


def run(plan):
    return Loopback(plan).run()
