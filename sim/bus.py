"""bussim: synchronous delivery of CAN frame histories to real decoders through format gateways.

A *frame* is [pgn, src, dst, prio, data-hex]; a *whole* message is the same with the complete
payload.  Faults (drop / duplicate / delay) are already applied in the plan's event list, so
execution needs no fault logic and the minimiser works on the delivered history itself.
"""
from . import n2k, clock

FRAME_FORMATS = ["ebyte", "usb", "yd", "ydT", "ydlow", "plain", "plainz"]
WHOLE_FORMATS = ["actisense", "plain_combined"]


def feed_frame(dec, fmt, fr, ts=None):
    """Deliver one CAN frame through the gateway format `fmt`; returns (message|None, exception|None).
    ts: optional timestamp text the gateway stamps on the line (plain formats only)."""
    pgn, src, dst, prio, hx = fr
    data = bytes.fromhex(hx)
    try:
        if fmt == "ebyte":
            return dec.decode_tcp(n2k.wire_ebyte(n2k.can_id(pgn, src, dst, prio), data)), None
        if fmt == "usb":
            return dec.decode_usb(n2k.wire_usb(n2k.can_id(pgn, src, dst, prio), data)), None
        ydts = ts if (ts is not None and len(ts) == 12 and ts[2] == ":") else "00:01:54.430"
        if fmt == "yd":
            return dec.decode_yacht_devices_string(n2k.yd_line(n2k.can_id(pgn, src, dst, prio), data, "R", False, ydts)), None
        if fmt == "ydT":
            return dec.decode_yacht_devices_string(n2k.yd_line(n2k.can_id(pgn, src, dst, prio), data, "T", False, ydts)), None
        if fmt == "ydlow":
            return dec.decode_yacht_devices_string(n2k.yd_line(n2k.can_id(pgn, src, dst, prio), data, "R", True, ydts)), None
        if fmt == "plain":
            return dec.decode_basic_string(n2k.plain_line(pgn, src, dst, prio, data, False, ts if ts and len(ts) > 12 else None)), None
        if fmt == "plainz":
            return dec.decode_basic_string(n2k.plain_line(pgn, src, dst, prio, data, True, None)), None
    except Exception as e:
        return None, e
    raise ValueError(fmt)


def feed_whole(dec, fmt, fr):
    pgn, src, dst, prio, hx = fr
    payload = bytes.fromhex(hx)
    try:
        if fmt == "actisense":
            return dec.decode_actisense_string(n2k.actisense_line(pgn, src, dst, prio, payload)), None
        if fmt == "plain_combined":
            return dec.decode_basic_string(n2k.plain_line(pgn, src, dst, prio, payload, False), True), None
    except Exception as e:
        return None, e
    raise ValueError(fmt)


def stamp_for(t):
    """canboat-plain timestamp text for virtual wall-clock second t."""
    d = clock.EPOCH + __import__("datetime").timedelta(seconds=t)
    return d.strftime("%Y-%m-%d-%H:%M:%S.") + "%03d" % (d.microsecond // 1000)


class VClock:
    """Virtual wall clock for bus histories."""

    def __init__(self, t=0.0):
        self.t = t

    def __call__(self):
        return self.t


def with_clock(vc):
    clock.install()
    clock.set_source(vc)


def observed_payload_int(m):
    """The payload a proprietary fast-packet fallback message carries, as one little-endian integer."""
    f = {x.id: x for x in m.fields}
    try:
        data = f["data"].raw_value
        if isinstance(data, (bytes, bytearray)):
            di = int.from_bytes(data, "big")
        elif isinstance(data, int):
            di = data
        else:
            return None
        return f["manufacturerCode"].raw_value | (f["reserved_11"].raw_value << 11) | (f["industryCode"].raw_value << 13) | (di << 16)
    except Exception:
        return None
