"""Deterministic simulation core for the nmea2000 verification checks.

Everything a run does is a pure function of its *plan* (plain JSON data) and the
code under /repo: no wall clock, no real socket, no PRNG draw at execution time.
"""
