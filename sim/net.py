"""netsim: executes one plan against a real gateway client on the virtual-time loop.

`run(plan)` is a pure function of the plan and the code under test.  It returns an
`Obs` object with everything the oracles need: the event trace, status/receive
callback invocations, what the simulated gateway saw, sampled client state, reader
concurrency, stalls, heartbeat ticks and the life-time of every task the client made.
"""
import asyncio
import hashlib
import time as _time

from . import clock
from .loop import SimLoop, SimStall, SimDeadlock, WallTimeout, install_reader_probe, readers_active

BUSY = b"Sorry,Limited"


class SeamDrift(Exception):
    """The code under test no longer reaches the simulator through the expected seam."""


class SimTransport(asyncio.Transport):
    """Model of asyncio's selector socket transport as far as the stream layer can observe."""

    def __init__(self, sim, proto, conn):
        super().__init__()
        self.sim = sim
        self.loop = sim.loop
        self.proto = proto
        self.conn = conn
        self.closing = False
        self.lost = False
        self.paused_w = False
        self.reading = True
        self.held = []           # deliveries deferred while reading is paused
        self.nw = 0
        self.eof_done = False

    # ---- client side ---------------------------------------------------------
    def write(self, data):
        self.loop.io("transport.write")
        if not isinstance(data, (bytes, bytearray, memoryview)):
            raise TypeError(f"data argument must be a bytes-like object, not {type(data).__name__!r}")
        data = bytes(data)
        if self.closing or self.lost or not data:
            return
        c = self.conn
        i = self.nw
        self.nw += 1
        w = c["w"]
        if w.get("fail_at") is not None and i == w["fail_at"]:
            # the kernel refuses the bytes: fatal error -> connection_lost(exc) soon
            self.lost = True
            self.sim.fired["write_fail"] += 1
            c["fault"] = (self.sim.ev("gw", "write_fail", (c["id"], i)), self.loop.vt, "write_fail")
            kind = w.get("fail_exc", "reset")
            if kind == "etimedout":
                import errno
                exc = OSError(errno.ETIMEDOUT, "sim: connection timed out")         # what TCP keepalive reports
            elif kind == "epipe":
                exc = BrokenPipeError(32, "sim: broken pipe")
            else:
                exc = ConnectionResetError("sim: write failed")
            self.loop.call_soon(self._lost, exc)
            return
        c["written"].append((self.loop.vt, self.loop.iters, data))
        self.sim.ev("gw", "rx", (c["id"], data.hex()))
        d = w.get("pause", {}).get(str(i))
        if d is not None and not self.paused_w:
            self.paused_w = True
            self.sim.fired["write_pause"] += 1
            self.proto.pause_writing()
            self.loop.sim_after(d, self._resume)

    def _resume(self):
        if self.paused_w:
            self.paused_w = False
            if not self.lost:
                self.proto.resume_writing()

    def _lost(self, exc):
        self.proto.connection_lost(exc)

    def can_write_eof(self):
        return True

    def write_eof(self):
        pass

    def is_closing(self):
        return self.closing

    def close(self):
        if self.closing:
            return
        self.closing = True
        self.conn["closed_at"] = (self.loop.vt, self.loop.iters)
        self.sim.ev("gw", "client_closed", self.conn["id"])
        if not self.lost:
            self.lost = True
            self.loop.call_soon(self._lost, None)

    abort = close

    def get_extra_info(self, name, default=None):
        return default

    def get_write_buffer_size(self):
        return 0

    def get_write_buffer_limits(self):
        return (16384, 65536)

    def set_write_buffer_limits(self, high=None, low=None):
        pass

    def pause_reading(self):
        self.reading = False

    def resume_reading(self):
        if self.reading:
            return
        self.reading = True
        held, self.held = self.held, []
        for fn, args in held:
            self.loop.call_soon(fn, *args)

    def is_reading(self):
        return self.reading and not self.closing

    def get_protocol(self):
        return self.proto

    def set_protocol(self, p):
        self.proto = p

    # ---- gateway side --------------------------------------------------------
    def deliver(self, data):
        if self.lost or self.eof_done:
            return               # nothing follows a FIN
        if not self.reading:
            self.held.append((self.deliver, (data,)))
            return
        self.conn["delivered"] += len(data)
        self.sim.ev("gw", "tx", (self.conn["id"], len(data)))
        self.proto.data_received(data)

    def eof(self):
        if self.lost:
            return
        if not self.reading:
            self.held.append((self.eof, ()))
            return
        self.conn["fault"] = (self.sim.ev("gw", "eof", self.conn["id"]), self.loop.vt, "eof")
        self.eof_done = True
        keep = self.proto.eof_received()
        if not keep:
            self.close()

    def reset(self):
        if self.lost:
            return
        self.lost = True
        self.conn["fault"] = (self.sim.ev("gw", "reset", self.conn["id"]), self.loop.vt, "reset")
        self.proto.connection_lost(ConnectionResetError("sim: connection reset by peer"))


class Obs:
    pass


class NetSim:
    def __init__(self, plan, wall_limit=None):
        self.plan = plan
        self.loop = SimLoop()
        self.loop.net = self
        self.trace = []
        self.fired = _Counter()
        self.attempts = []
        self.conns = []
        self.status = []         # (ev, vt, iter, state name)
        self.recv = []           # (ev, vt, iter, message)
        self.recv_exit = []      # (ev, vt)
        self.samples = []        # (iter, vt, state name) -- changes only
        self.ops = []
        self.reader_over = []    # (iter, n)
        self.max_readers = 0
        self.blocking = []       # (vt, seconds)
        self.hb = 0
        self.unhandled = []
        self.client = None
        self.task_done = {}      # task name -> vt when done
        self.last_activity = 0.0
        self.wall_limit = wall_limit
        self.close_started = None
        self.horizon = 0.0
        self.wall_hit = False

    def _iter_ops_pending(self):
        it = self.loop.iters
        return any(k > it for k in self._iter_ops) or bool(self._iter_faults)

    def plan_at(self, t, fn, *args):
        if t > self.horizon:
            self.horizon = t
        self.loop.sim_at(t, fn, *args)

    # ---- trace ---------------------------------------------------------------
    def ev(self, actor, kind, detail=None):
        n = len(self.trace)
        self.trace.append((n, self.loop.vt, self.loop.iters, actor, kind, detail))
        return n

    # ---- seams ---------------------------------------------------------------
    def _next_entry(self):
        i = len(self.attempts)
        script = self.plan.get("script", [])
        if i < len(script):
            return script[i]
        return {"a": "accept", "lat": 0.01}

    async def _attempt(self):
        loop = self.loop
        entry = self._next_entry()
        st = self.client.state.name if self.client is not None else None
        att = {"idx": len(self.attempts), "start": loop.vt, "iter": loop.iters, "state": st,
               "result": None, "end": None, "after_close": self.close_started is not None}
        self.attempts.append(att)
        att["ev"] = self.ev("gw", "attempt", (att["idx"], entry["a"], st))
        self.last_activity = loop.vt
        await loop.sim_sleep(entry.get("lat", 0.01))
        att["end"] = loop.vt
        self.last_activity = loop.vt
        if entry["a"] == "refuse":
            att["result"] = "refused"
            self.fired["connect_refused"] += 1
            self.ev("gw", "refused", att["idx"])
            raise ConnectionRefusedError(111, "sim: connection refused")
        if entry["a"] == "fail":
            att["result"] = "failed"
            self.fired["connect_failed"] += 1
            self.ev("gw", "failed", att["idx"])
            raise OSError(113, "sim: no route to host")
        att["result"] = "accepted"
        return entry, att

    def _accept(self, entry, att, proto):
        loop = self.loop
        conn = {"id": len(self.conns), "attempt": att["idx"], "at": loop.vt, "iter": loop.iters,
                "written": [], "closed_at": None, "fault": None, "delivered": 0,
                "w": entry.get("w") or {}, "entry": entry, "final": bool(entry.get("final")),
                "sent_segments": []}
        t = SimTransport(self, proto, conn)
        conn["t"] = t
        self.conns.append(conn)
        att["conn"] = conn["id"]
        self.ev("gw", "accepted", (att["idx"], conn["id"]))
        proto.connection_made(t)
        self._schedule_stream(entry, conn, t)
        for op in self._accept_ops.get(att["idx"], ()):
            self.plan_at(loop.vt + op.get("d", 0.0), self._start_op, op)
        return t

    def _schedule_stream(self, entry, conn, t):
        loop = self.loop
        segs = entry.get("stream") or []
        data = b"".join(bytes.fromhex(s[1]) for s in segs)
        if entry.get("busy"):
            data = BUSY + data
            self.fired["busy_sentinel"] += 1
        end = entry.get("end")
        limit = len(data)
        if end is not None and end.get("after") is not None:
            limit = min(limit, end["after"])
        chunks = entry.get("chunks") or []
        gaps = entry.get("gaps") or [1e-4]
        at = loop.vt + entry.get("start", 0.001)
        pos = 0
        i = 0
        while pos < limit:
            n = chunks[i] if i < len(chunks) else limit - pos
            n = max(1, min(n, limit - pos, 4096))
            at += gaps[i % len(gaps)]
            self.plan_at(at, self._deliver, t, data[pos:pos + n])
            pos += n
            i += 1
        conn["planned_bytes"] = limit
        conn["last_chunk_at"] = at
        if end is not None:
            # A fault is never handed to the loop in the same select() as a delivery on this transport:
            # a real selector transport reports an error from a *later* read-ready callback than the one
            # that delivered data, so the reading task always re-arms its waiter in between.
            at += max(end.get("d", 0.001), 2e-6)
            if end.get("iter") is not None:
                target = loop.iters + end["iter"]
                self._iter_faults.append((target, t, end["k"]))
            else:
                self.plan_at(at, self._fault, t, end["k"])

    def _deliver(self, t, data):
        self.last_activity = self.loop.vt
        t.deliver(data)

    def _fault(self, t, kind):
        if t.lost:
            return
        self.last_activity = self.loop.vt
        self.fired[kind] += 1
        if t.conn["delivered"] and self._mid_packet(t.conn):
            self.fired[kind + "_mid_packet"] += 1
        getattr(t, kind)()

    def _mid_packet(self, conn):
        segs = conn["entry"].get("stream") or []
        pos = 0
        d = conn["delivered"] - (len(BUSY) if conn["entry"].get("busy") else 0)
        for s in segs:
            if pos == d:
                return False
            pos += len(s[1]) // 2
        return pos != d

    async def tcp_connect(self, protocol_factory, host, port):
        entry, att = await self._attempt()
        proto = protocol_factory()
        t = self._accept(entry, att, proto)
        return t, proto

    async def serial_connect(self, *a, **kw):
        loop = asyncio.get_running_loop()
        loop.io("open_serial_connection")
        entry, att = await self._attempt()
        reader = asyncio.StreamReader(loop=loop)
        proto = asyncio.StreamReaderProtocol(reader, loop=loop)
        t = self._accept(entry, att, proto)
        writer = asyncio.StreamWriter(t, proto, reader, loop)
        return reader, writer

    # ---- callbacks -----------------------------------------------------------
    def _mk_callbacks(self):
        cb = self.plan.get("cb") or {}
        rcfg = cb.get("recv") or {}
        scfg = cb.get("status") or {}
        r_raise = set(rcfg.get("raise") or [])
        r_delay = rcfg.get("delay") or {}
        s_raise = set(scfg.get("raise") or [])
        s_delay = scfg.get("delay") or {}
        r_close = rcfg.get("close_at")          # the receive callback itself awaits client.close() at this invocation
        s_close = scfg.get("close_at")
        sim = self

        async def on_recv(msg):
            i = len(sim.recv)
            sim.recv.append((sim.ev("cb", "recv", (i, getattr(msg, "PGN", None), getattr(msg, "source", None))),
                             sim.loop.vt, sim.loop.iters, msg))
            d = r_delay.get(str(i))
            if d:
                sim.fired["recv_cb_slow"] += 1
                await asyncio.sleep(d)
            if r_close is not None and i == r_close:
                sim.fired["close_from_receive_callback"] += 1
                await sim._run_op({"op": "close", "id": "recv-cb"})
            sim.recv_exit.append((i, sim.loop.vt))
            if i in r_raise:
                sim.fired["recv_cb_raise"] += 1
                raise RuntimeError("sim: receive callback failed")

        async def on_status(state):
            i = len(sim.status)
            sim.status.append((sim.ev("cb", "status", (i, state.name)), sim.loop.vt, sim.loop.iters, state.name))
            d = s_delay.get(str(i))
            if d:
                sim.fired["status_cb_slow"] += 1
                await asyncio.sleep(d)
            if s_close is not None and i == s_close and state.name != "CLOSED":
                sim.fired["close_from_status_callback"] += 1
                await sim._run_op({"op": "close", "id": "status-cb"})
            if i in s_raise:
                sim.fired["status_cb_raise"] += 1
                raise RuntimeError("sim: status callback failed")

        s_sync = set(scfg.get("sync_raise") or [])
        if scfg.get("plain_callable"):
            # the registered callback is an ordinary callable that returns the awaitable (a dispatcher, a partial);
            # it may also fail before it has produced one
            def on_status_plain(state):
                i = len(sim.status)
                if i in s_sync:
                    sim.status.append((sim.ev("cb", "status", (i, state.name)), sim.loop.vt, sim.loop.iters, state.name))
                    sim.fired["status_cb_raise_at_call"] += 1
                    raise KeyError("sim: status dispatcher failed")
                return on_status(state)
            return on_recv, on_status_plain
        return on_recv, on_status

    # ---- client construction ---------------------------------------------------
    def _mk_client(self):
        import nmea2000.ioclient as io
        from nmea2000.consts import PhysicalQuantities
        cfg = dict(self.plan.get("config") or {})
        pu = cfg.pop("preferred_units", None)
        if pu:
            cfg["preferred_units"] = {PhysicalQuantities[k]: v for k, v in pu.items()}
        kind = self.plan["client"]
        if kind == "ebyte":
            return io.EByteNmea2000Gateway("sim-gw", 8881, **cfg)
        if kind == "actisense":
            return io.ActisenseNmea2000Gateway("sim-gw", 8881, **cfg)
        if kind == "yd":
            return io.YachtDevicesNmea2000Gateway("sim-gw", 8881, **cfg)
        if kind == "waveshare":
            return io.WaveShareNmea2000Gateway("/dev/sim", **cfg)
        raise ValueError(kind)

    # ---- per-iteration hook ------------------------------------------------------
    def _step(self, it):
        c = self.client
        if c is not None:
            try:
                s = c.state.name
            except Exception as e:      # noqa
                s = "ERR:" + type(e).__name__
            if not self.samples or self.samples[-1][2] != s:
                self.samples.append((it, self.loop.vt, s))
        if self._undone is not None:
            for t in self.loop.task_log[self._seen_tasks:]:
                if not t[1]:
                    self._undone.append(t[0])
            self._seen_tasks = len(self.loop.task_log)
            if self._undone:
                still = []
                for t in self._undone:
                    if t.done():
                        self.task_done[t.get_name()] = self.loop.vt
                    else:
                        still.append(t)
                self._undone = still
        n = len(readers_active)
        if n > 1:
            if not self.reader_over or self.reader_over[-1][0] != it - 1 or len(self.reader_over) < 3:
                self.reader_over.append((it, n))
        if n > self.max_readers:
            self.max_readers = n
        if self._retain and n >= 1:
            # "between reads": sampled while the client waits inside a read, not while it works through one
            r = retained_bytes(c)
            if r > self.max_retained:
                self.max_retained = r
                self.max_retained_at = (it, self.loop.vt)
        ops = self._iter_ops.get(it)
        if ops:
            for op in ops:
                self.loop.call_soon(self._start_op, op)
        if self._iter_faults:
            keep = []
            for target, t, kind in self._iter_faults:
                if it >= target:
                    self.loop.call_soon(self._fault, t, kind)
                else:
                    keep.append((target, t, kind))
            self._iter_faults = keep
        if self.wall_limit is not None and (it & 1023) == 0 and _time.monotonic() > self.wall_limit:
            raise WallTimeout("wall budget exceeded at iteration %d" % it)

    # ---- user operations -------------------------------------------------------
    def _start_op(self, op):
        self.loop.spawn(self._run_op(op))

    async def _run_op(self, op):
        loop = self.loop
        rec = {"id": op.get("id"), "op": op["op"], "start_ev": None, "start": loop.vt, "start_iter": loop.iters,
               "end": None, "end_iter": None, "exc": None, "state_before": self.client.state.name}
        self.ops.append(rec)
        rec["start_ev"] = self.ev("op", op["op"] + ".start", op.get("id"))
        self.last_activity = loop.vt
        c = self.client
        try:
            if op["op"] == "connect":
                await c.connect()
            elif op["op"] == "close":
                if self.close_started is None:
                    self.close_started = (rec["start_ev"], loop.vt, loop.iters)
                await c.close()
            elif op["op"] == "send":
                from nmea2000.message import NMEA2000Message
                m = op["msg"]
                msg = NMEA2000Message.from_json(m) if isinstance(m, str) else m
                for f_ in getattr(msg, "fields", []) or []:
                    # integers wider than 64 bits do not survive JSON text: the plan spells them "@int:<digits>"
                    if isinstance(f_.value, str) and f_.value.startswith("@int:"):
                        f_.value = int(f_.value[5:])
                if op.get("timeout") is not None:
                    # the caller gives up after a while: the send() coroutine is cancelled wherever it is
                    self.fired["send_caller_timeout_armed"] += 1
                    await asyncio.wait_for(c.send(msg), op["timeout"])
                else:
                    await c.send(msg)
        except asyncio.CancelledError:
            rec["exc"] = "CancelledError"
            raise
        except Exception as e:
            rec["exc"] = type(e).__name__ + ": " + str(e)
        finally:
            rec["end"] = loop.vt
            rec["end_iter"] = loop.iters
            self.last_activity = loop.vt
            self.ev("op", op["op"] + ".end", (op.get("id"), rec["exc"]))

    # ---- main ------------------------------------------------------------------
    async def _main(self):
        loop = self.loop
        knobs = self.plan.get("knobs") or {}
        on_recv, on_status = self._mk_callbacks()
        self.client = c = self._mk_client()
        c.set_receive_callback(on_recv)
        c.set_status_callback(on_status)
        hb_d = knobs.get("hb", 1.0)

        async def heart():
            while True:
                await asyncio.sleep(hb_d)
                self.hb += 1
        h = loop.spawn(heart())
        for op in self.plan.get("ops") or []:
            if "on_accept" in op:
                self._accept_ops.setdefault(op["on_accept"], []).append(op)
            elif "iter" in op:
                self._iter_ops.setdefault(op["iter"], []).append(op)
            else:
                self.plan_at(op.get("at", 0.0), self._start_op, op)
        min_end = knobs.get("min_end", 1.0)
        tail = knobs.get("tail", 5.0)
        max_end = knobs.get("max_end", 3600.0)
        while True:
            await loop.sim_sleep(0.5)
            if loop.vt >= max_end:
                break
            if (loop.vt >= min_end and loop.vt >= self.last_activity + tail and loop.vt >= self.horizon + tail
                    and not self._iter_ops_pending()):
                break
        self.end_vt = loop.vt
        self.hb_at_end = self.hb
        self.end_state = c.state.name
        self.pending_at_end = [t.get_name() for t, hs in loop.task_log if not hs and not t.done()]
        h.cancel()
        await self._drain_after_close()
        self.ev("sim", "end", self.end_state)

    DRAIN_MAX_S = 7200.0

    async def _drain_after_close(self):
        """After close(): keep the simulation going (heartbeat stopped) until every task the client created is
        done or nothing is left that could ever wake one (no timer, no simulator event, nothing ready).  Tasks
        pending at that point never finish."""
        loop = self.loop
        self.never_finished = None
        if not self.close_started:
            return
        def pend():
            return [t.get_name() for t, hs in loop.task_log if not hs and not t.done()]
        if not pend():
            self.never_finished = []
            return
        limit = loop.vt + self.DRAIN_MAX_S
        idle = 0
        while loop.vt < limit and pend():
            timers = [th._when for th in loop._scheduled if not th._cancelled]
            nxt = min(timers + ([loop.q[0][0]] if loop.q else []), default=None)
            if nxt is None:
                if not loop._ready:
                    idle += 1
                    if idle > 3:
                        break
                else:
                    idle = 0
                await loop.sim_sleep(1e-6)
                continue
            idle = 0
            await loop.sim_sleep(max(nxt - loop.vt, 0.0) + 1e-6)
        self.never_finished = pend()
        self.drain_end_vt = loop.vt

    def run(self):
        install_reader_probe()
        clock.install()
        loop = self.loop
        clock.set_source(lambda: loop.vt)
        self._iter_ops = {}
        self._accept_ops = {}
        self._iter_faults = []
        self._undone = []
        self._seen_tasks = 0
        self._retain = bool((self.plan.get("knobs") or {}).get("retain"))
        self.max_retained = 0
        self.max_retained_at = None
        loop.step_hooks.append(self._step)
        loop.set_exception_handler(self._on_unhandled)
        import serial_asyncio
        import time as timemod
        old_serial = serial_asyncio.open_serial_connection
        old_sleep = timemod.sleep
        serial_asyncio.open_serial_connection = self.serial_connect

        def fake_sleep(d):
            self.blocking.append((loop.vt, d))
            loop.vt += max(0.0, d)
        timemod.sleep = fake_sleep
        readers_active.clear()
        asyncio.set_event_loop(None)
        self.crashed = None
        self.end_vt = None
        try:
            try:
                loop.run_until_complete(loop.spawn(self._main()))
            except SimDeadlock as e:
                self.crashed = "deadlock: %s" % e
            except WallTimeout as e:
                self.crashed = "wall: %s" % e
                self.wall_hit = True
            self._teardown()
        finally:
            serial_asyncio.open_serial_connection = old_serial
            timemod.sleep = old_sleep
            clock.set_source(None)
            readers_active.clear()
            try:
                loop.close()
            except Exception:
                pass
        return self._obs()


    def _teardown(self):
        loop = self.loop
        loop.step_hooks.clear()
        loop.q.clear()
        pending = [t for t, _ in loop.task_log if not t.done()]
        for t in pending:
            t.cancel()
        n = 0
        while pending and n < 2000:
            n += 1
            try:
                loop.run_until_complete(asyncio.wait(pending, timeout=0.05))
            except (SimDeadlock, RuntimeError):
                break
            pending = [t for t in pending if not t.done()]
            for t in pending:
                t.cancel()
        for t, _ in loop.task_log:
            if t.done() and not t.cancelled():
                try:
                    t.exception()
                except BaseException:
                    pass

    def _on_unhandled(self, loop, ctx):
        exc = ctx.get("exception")
        self.unhandled.append((self.loop.vt, ctx.get("message"), type(exc).__name__ if exc else None))

    def _obs(self):
        o = Obs()
        o.plan = self.plan
        # Nothing that happens after the end of the run is an observation: the harness then cancels the client's tasks,
        # which no user does, and a client may well react to that (a notification from a `finally`, a last attempt).
        n_end = next((e[0] for e in self.trace if e[3] == "sim" and e[4] == "end"), None)
        if n_end is not None:
            self.trace = [e for e in self.trace if e[0] <= n_end]
            self.status = [x for x in self.status if x[0] < n_end]
            self.recv = [x for x in self.recv if x[0] < n_end]
            self.attempts = [a for a in self.attempts if a["ev"] < n_end]
        o.trace = self.trace
        o.status = self.status
        o.recv = self.recv
        o.recv_exit = self.recv_exit
        o.attempts = self.attempts
        o.conns = self.conns
        o.samples = self.samples
        o.ops = self.ops
        o.reader_over = self.reader_over
        o.max_readers = self.max_readers
        o.blocking = self.blocking
        o.stalls = list(self.loop.stalled)
        o.hb = getattr(self, "hb_at_end", self.hb)
        o.end_vt = self.end_vt if self.end_vt is not None else self.loop.vt
        o.end_state = getattr(self, "end_state", None)
        o.pending_at_end = getattr(self, "pending_at_end", [])
        o.never_finished = getattr(self, "never_finished", None)
        o.drain_end_vt = getattr(self, "drain_end_vt", None)
        o.unhandled = self.unhandled
        o.crashed = self.crashed
        o.wall_hit = self.wall_hit
        o.fired = dict(self.fired)
        o.iters = self.loop.iters
        o.close_started = self.close_started
        o.tasks = [(t.get_name(), hs) for t, hs in self.loop.task_log]
        o.task_done = self.task_done
        o.client = self.client
        o.max_retained = self.max_retained
        o.max_retained_at = self.max_retained_at
        h = hashlib.sha256()
        for e in self.trace:
            h.update(repr(e).encode())
        o.digest = h.hexdigest()
        return o


def retained_bytes(client):
    """Total length of bytes-like objects reachable from the client's instance attributes (depth <= 2 through
    list / tuple / deque / dict); stream reader/writer, queue, decoder, encoder and tasks are excluded by type."""
    import collections
    if client is None:
        return 0
    skip = (asyncio.StreamReader, asyncio.StreamWriter, asyncio.Queue, asyncio.Future, asyncio.Lock)
    total = 0

    def walk(x, depth):
        nonlocal total
        if isinstance(x, (bytes, bytearray, memoryview)):
            total += len(x)
        elif depth < 2 and isinstance(x, (list, tuple, collections.deque)):
            for y in x:
                walk(y, depth + 1)
        elif depth < 2 and isinstance(x, dict):
            for y in x.values():
                walk(y, depth + 1)
    try:
        attrs = list(vars(client).values())
    except TypeError:
        return 0
    for a in attrs:
        if isinstance(a, skip) or type(a).__module__.startswith("nmea2000"):
            continue
        walk(a, 0)
    return total


class _Counter(dict):
    def __missing__(self, k):
        return 0


def run(plan, wall_limit=None):
    # every execution of a plan starts from the same state of the global random generator (a library that jitters its
    # back-off draws from it): two executions of one session inside one check then differ only in what the check varies
    import random
    random.seed("net:%s:%s" % (plan.get("_seed"), plan.get("_idx")))
    return NetSim(plan, wall_limit).run()
