"""Message equality (`eqmsg` of DESIGN.md) as a canonical, hashable key."""


def iso_key(n):
    if n is None:
        return None
    return tuple((a, repr(getattr(n, a, "<missing>"))) for a in
                 ("name", "unique_number", "manufacturer_code", "device_instance", "device_function",
                  "device_class", "system_instance", "industry_group", "arbitrary_address_capable"))


def raw_key(raw):
    if isinstance(raw, (bytes, bytearray, memoryview)):
        return bytes(raw).hex()
    return raw


def fields_key(m):
    return tuple((f.id, repr(f.value), repr(f.raw_value), f.unit_of_measurement) for f in m.fields)


def key(m, raw=False, iso=True):
    """Canonical comparison key of a decoded message (None stays None)."""
    if m is None:
        return None
    k = (m.PGN, m.id, m.source, m.destination, m.priority, fields_key(m), m.hash,
         iso_key(m.source_iso_name) if iso else None)
    if raw:
        k += (raw_key(m.raw_can_data),)
    return k


def brief(m):
    if m is None:
        return None
    return "%s/%s src=%s dst=%s prio=%s" % (m.PGN, m.id, m.source, m.destination, m.priority)


def diff(a, b):
    """Human-readable first difference between two keys."""
    if a is None or b is None:
        return "one side is None: %r vs %r" % (a if a is None else a[:5], b if b is None else b[:5])
    names = ("PGN", "id", "source", "destination", "priority", "fields", "hash", "iso", "raw")
    for i, (x, y) in enumerate(zip(a, b)):
        if x != y:
            if names[i] == "fields":
                for fx, fy in zip(x, y):
                    if fx != fy:
                        return "field %r != %r" % (fx, fy)
                return "field count %d != %d" % (len(x), len(y))
            return "%s: %r != %r" % (names[i], x, y)
    return "length"
