"""Delta-debugging minimiser over plan data (plain JSON).

A property declares `SHRINK_PATHS`: tuples addressing lists inside the plan
("*" fans out over list indices).  The minimiser removes list chunks (ddmin),
then applies the property's own `simplify(plan)` candidates, until nothing helps
or the budget is spent.  `fails(plan)` must return True iff the *same check id* fails.
"""
import copy
import time


def _resolve(plan, path):
    """Yield (container, key) pairs for every concrete list addressed by path."""
    nodes = [(None, None, plan)]
    for p in path:
        nxt = []
        for _, _, node in nodes:
            if p == "*":
                if isinstance(node, list):
                    for i, v in enumerate(node):
                        nxt.append((node, i, v))
            elif isinstance(node, dict) and p in node and node[p] is not None:
                nxt.append((node, p, node[p]))
        nodes = nxt
    return [(c, k) for c, k, v in nodes if isinstance(v, list)]


def _concrete_paths(plan, path):
    out = []

    def rec(node, i, acc):
        if i == len(path):
            if isinstance(node, list):
                out.append(tuple(acc))
            return
        p = path[i]
        if p == "*":
            if isinstance(node, list):
                for j, v in enumerate(node):
                    rec(v, i + 1, acc + [j])
        elif isinstance(node, dict) and node.get(p) is not None:
            rec(node[p], i + 1, acc + [p])
    rec(plan, 0, [])
    return out


def _get(plan, cpath):
    n = plan
    for p in cpath:
        n = n[p]
    return n


def _set(plan, cpath, value):
    n = plan
    for p in cpath[:-1]:
        n = n[p]
    n[cpath[-1]] = value


class Budget:
    def __init__(self, max_exec, max_wall):
        self.left = max_exec
        self.deadline = time.monotonic() + max_wall
        self.used = 0

    def ok(self):
        return self.left > 0 and time.monotonic() < self.deadline

    def spend(self):
        self.left -= 1
        self.used += 1


def minimise(plan, fails, paths, simplify=None, max_exec=400, max_wall=60.0):
    budget = Budget(max_exec, max_wall)
    best = copy.deepcopy(plan)

    def attempt(cand):
        if not budget.ok():
            return False
        budget.spend()
        try:
            return bool(fails(cand))
        except Exception:
            return False

    progress = True
    while progress and budget.ok():
        progress = False
        for path in paths:
            for cpath in _concrete_paths(best, path):
                try:
                    lst = _get(best, cpath)
                except (KeyError, IndexError, TypeError):
                    continue
                n = len(lst)
                if n == 0:
                    continue
                chunk = n
                while chunk >= 1 and budget.ok():
                    i = 0
                    removed = False
                    while i < len(lst) and budget.ok():
                        cand_list = lst[:i] + lst[i + chunk:]
                        cand = copy.deepcopy(best)
                        _set(cand, cpath, cand_list)
                        if attempt(cand):
                            best = cand
                            lst = _get(best, cpath)
                            progress = True
                            removed = True
                        else:
                            i += chunk
                    if chunk == 1:
                        break
                    chunk = max(1, chunk // 2)
                    if not removed and chunk > len(lst):
                        chunk = max(1, len(lst))
        if simplify is not None:
            changed = True
            while changed and budget.ok():
                changed = False
                for cand in simplify(copy.deepcopy(best)):
                    if cand == best:
                        continue
                    if attempt(cand):
                        best = cand
                        changed = True
                        progress = True
                        break
    return best, budget.used
