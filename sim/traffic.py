"""Seeded traffic generators (plan-building side; never used during execution)."""
from . import n2k, catalog

SINGLE_POOL = [127250, 127257, 127251, 130306, 130312, 130314, 127245, 128259, 128267, 127488, 127505, 127508,
               129025, 129026, 65280, 59904, 59392, 126992, 127258, 130310, 130311, 130316, 61184, 65359]
FAST_POOL = [129029, 126996, 126998, 129540, 130816, 126720, 127489, 129038, 129039, 129794, 129809, 129810,
             128275, 130820, 127506, 129284, 129285, 130577]
UNKNOWN_POOL = [65000, 130999, 127000, 59136, 124672]      # canonical PGN numbers the database does not define
MFG_CODES = [137, 275, 1855, 135, 229, 1851, 358, 381,      # Maretron, Navico, Furuno, Airmar, Garmin, Raymarine, Victron, B & G
             1085, 431, 78, 161, 341, 427, 1239, 644]         # names with commas, slashes, brackets, ampersands, dots, dashes


def rbytes(rng, n):
    return bytes(rng.getrandbits(8) for _ in range(n))


def single_frame(rng, src=None, pgn=None):
    catalog.load()
    pgn = pgn if pgn is not None else (rng.choice(SINGLE_POOL) if rng.random() < 0.7 else rng.choice(catalog.SINGLE))
    src = rng.randrange(0, 254) if src is None else src
    dst = catalog.dst_for(pgn, rng)
    k = rng.random()
    if k < 0.5 and pgn in catalog.BY_PGN:
        d = rng.choice(catalog.BY_PGN[pgn])
        data = catalog.payload_for(rng, d, 8)
    elif k < 0.9:
        data = rbytes(rng, 8)
    else:
        data = bytes([0xFF] * 8)
    return {"k": "single", "pgn": pgn, "src": src, "dst": dst, "prio": rng.randrange(8), "data": data}


def claim_frame(rng, src, mfg=None, unique=None):
    mfg = rng.choice(MFG_CODES) if mfg is None else mfg
    unique = rng.getrandbits(21) if unique is None else unique
    data, name = n2k.claim_payload(unique, mfg, rng.randrange(8), rng.randrange(32), rng.choice([130, 140, 150, 170]),
                                   rng.choice([25, 30, 35, 40, 60, 75]), rng.randrange(16), 4, rng.randrange(2))
    return {"k": "claim", "pgn": n2k.CLAIM_PGN, "src": src, "dst": 255, "prio": 6, "data": data, "name": name,
            "mfg": mfg}


def fast_message(rng, src, seq, pgn=None, length=None, pad="rand"):
    catalog.load()
    pgn = pgn if pgn is not None else (rng.choice(FAST_POOL) if rng.random() < 0.8 else rng.choice(catalog.FAST))
    dst = catalog.dst_for(pgn, rng)
    if length is None:
        k = rng.random()
        if k < 0.4 and pgn in catalog.BY_PGN:
            d = rng.choice(catalog.BY_PGN[pgn])
            payload = catalog.payload_for(rng, d)
        else:
            payload = rbytes(rng, rng.choice([1, 3, 5, 6, 7, 8, 13, 14, 20, 27, 43, 47, 90, 223]))
    else:
        payload = rbytes(rng, length)
    if pad == "rand":
        pad = rng.choice([None, 0xFF, 0xFF, 0x00])
    frames = n2k.fast_frames(payload, seq, pad)
    prio = rng.randrange(8)
    return [{"k": "fast", "pgn": pgn, "src": src, "dst": dst, "prio": prio, "data": f, "i": i, "n": len(frames)}
            for i, f in enumerate(frames)], payload


def can_history(rng, n_items, sources=None, junk=True, claims=True):
    """A list of CAN-level items: frames of several interleaved streams plus junk markers."""
    sources = sources or [rng.randrange(0, 250) for _ in range(rng.randrange(1, 4))]
    seqs = {}
    lanes = []          # each lane is a list of frames that must stay in order
    for _ in range(n_items):
        k = rng.random()
        src = rng.choice(sources)
        if k < 0.40:
            lanes.append([single_frame(rng, src)])
        elif k < 0.65:
            pgn = rng.choice(FAST_POOL)
            seq = seqs.get((pgn, src), rng.randrange(8))
            seqs[(pgn, src)] = (seq + 1) % 8
            fr, _ = fast_message(rng, src, seq, pgn)
            lanes.append(fr)
        elif k < 0.75 and claims:
            lanes.append([claim_frame(rng, src)])
        elif k < 0.82:
            lanes.append([{"k": "unknown", "pgn": rng.choice(UNKNOWN_POOL), "src": src, "dst": 255, "prio": 3,
                           "data": rbytes(rng, 8)}])
        elif k < 0.90:
            pgn = rng.choice(FAST_POOL + SINGLE_POOL)
            lanes.append([{"k": "short", "pgn": pgn, "src": src, "dst": 255, "prio": 3,
                           "data": rbytes(rng, rng.randrange(0, 3))}])
        elif junk:
            lanes.append([{"k": "junk"}])
        else:
            lanes.append([single_frame(rng, src)])
    # interleave: same-stream fast messages must not overlap (keep lane order per stream key)
    out = []
    active = []
    pending = list(lanes)
    while pending or active:
        if pending and (len(active) < 3 and (not active or rng.random() < 0.5)):
            lane = pending.pop(0)
            key = (lane[0].get("pgn"), lane[0].get("src"), lane[0].get("dst")) if lane[0]["k"] == "fast" else None
            if key is not None and any(a[1] == key for a in active):
                # finish the conflicting lane first
                for a in list(active):
                    if a[1] == key:
                        out.extend(a[0])
                        active.remove(a)
            active.append([list(lane), key])
        else:
            a = rng.choice(active)
            out.append(a[0].pop(0))
            if not a[0]:
                active.remove(a)
    return out


# ---- CAN item -> wire packet per client kind ------------------------------------------

YD_JUNK = [b"\r\n", b"garbage line\r\n", b"\xff\xfe\x80 R 1 2\r\n", b"00:00:00.000 X 15F11910 00\r\n",
           b"00:00:00.000 R ZZZZ 00 11\r\n", b"  \r\n", b"00:00:00.000 R\r\n", b"12:00 R 15F11910 00 GG\r\n",
           b"\xc3\x28 bad utf8 \xa0\xa1\r\n"]
ACT_JUNK = [b"\r\n", b"garbage\r\n", b"A1.2 3 4\r\n", b"B000123.456 01FF3 1F112 0011223344556677\r\n",
            b"A000123.456 01FF3 ZZZZZ 00\r\n", b"A000123.456 01FF3 1F112 0G\r\n", b"A000123.456 01FF3\r\n",
            b"\xff\xfe\xfd\r\n", b"A000123.456 01FF3 1F112 001\r\n"]


def wire_packet(rng, kind, item):
    """Serialise one CAN item for a client kind; returns bytes (one packet)."""
    if item["k"] == "junk":
        if kind == "ebyte":
            b = bytearray(rbytes(rng, 13))
            b[0] = (b[0] & 0xF0) | (rng.randrange(0, 9) if rng.random() < 0.6 else rng.randrange(9, 16))     # also lengths no CAN frame has
            if bytes(b) == b"Sorry,Limited":
                b[1] ^= 1
            return bytes(b)
        if kind == "waveshare":
            b = bytearray(n2k.wire_usb(n2k.can_id(127250, 1, 255, 2), rbytes(rng, 8)))
            pos = rng.randrange(2, 20)
            b[pos] ^= rng.randrange(1, 256)
            if b[0:2] != b"\xaa\x55":
                b[0:2] = b"\xaa\x55"
            # keep the marker out of the body so packet alignment stays unambiguous
            if b.find(b"\xaa\x55", 1) != -1:
                return n2k.wire_usb(n2k.can_id(127250, 1, 255, 2), bytes(8))[:19] + b"\x00"
            return bytes(b)
        if kind == "yd":
            return rng.choice(YD_JUNK)
        return rng.choice(ACT_JUNK)
    idn = n2k.can_id(item["pgn"], item["src"], item["dst"], item["prio"])
    data = item["data"]
    if kind == "ebyte":
        return n2k.wire_ebyte(idn, data)
    if kind == "waveshare":
        if len(data) >= 4 and rng.random() < 0.06:
            # a packet whose body happens to contain the start marker (e.g. a heading of raw value 0x55AA)
            k = rng.randrange(1, len(data) - 2)
            data = data[:k] + b"\xaa\x55" + data[k + 2:]
        p = n2k.wire_usb(idn, data)
        return p
    if kind == "yd":
        return n2k.wire_yd(idn, data, rng.choice("RT"), rng.random() < 0.3,
                           "%02d:%02d:%02d.%03d" % (rng.randrange(24), rng.randrange(60), rng.randrange(60),
                                                    rng.randrange(1000)))
    raise ValueError(kind)


def actisense_stream(rng, n_items, sources=None, junk=True):
    """Actisense carries whole messages: [(kind, bytes line)]"""
    catalog.load()
    sources = sources or [rng.randrange(0, 250) for _ in range(rng.randrange(1, 4))]
    out = []
    for _ in range(n_items):
        k = rng.random()
        src = rng.choice(sources)
        ts = "A%06d.%03d" % (rng.randrange(1000000), rng.randrange(1000))
        if k < 0.4:
            it = single_frame(rng, src)
            out.append(("single", (n2k.actisense_line(it["pgn"], src, it["dst"], it["prio"] % 8, it["data"], ts) + "\r\n").encode()))
        elif k < 0.65:
            _, payload = fast_message(rng, src, 0)
            pgn = rng.choice(FAST_POOL)
            out.append(("fast", (n2k.actisense_line(pgn, src, catalog.dst_for(pgn, rng), rng.randrange(8), payload, ts) + "\r\n").encode()))
        elif k < 0.75:
            it = claim_frame(rng, src)
            out.append(("claim", (n2k.actisense_line(it["pgn"], src, 255, 6, it["data"], ts) + "\r\n").encode()))
        elif k < 0.82:
            out.append(("unknown", (n2k.actisense_line(rng.choice(UNKNOWN_POOL), src, 255, 3, rbytes(rng, 8), ts) + "\r\n").encode()))
        elif k < 0.9:
            out.append(("short", (n2k.actisense_line(rng.choice(FAST_POOL + SINGLE_POOL), src, 255, 3, rbytes(rng, rng.randrange(1, 3)), ts) + "\r\n").encode()))
        elif junk:
            out.append(("junk", rng.choice(ACT_JUNK)))
        else:
            it = single_frame(rng, src)
            out.append(("single", (n2k.actisense_line(it["pgn"], src, it["dst"], it["prio"] % 8, it["data"], ts) + "\r\n").encode()))
    return out


def wire_stream(rng, kind, n_items, sources=None, junk=True):
    """[(segment kind, packet bytes)] for a client kind."""
    if kind == "actisense":
        return actisense_stream(rng, n_items, sources, junk)
    hist = can_history(rng, n_items, sources, junk)
    out = []
    for it in hist:
        p = wire_packet(rng, kind, it)
        if kind == "waveshare" and p.find(b"\xaa\x55", 1) != -1 and it["k"] != "junk":
            # a marker inside the body makes alignment ambiguous only after damage; in aligned
            # streams it is harmless, keep it (C12 streams are aligned)
            pass
        out.append((it["k"], p))
    return out


def cuts_for(rng, packets, kind):
    """Chunk sizes for a packet list under a random segmentation mode."""
    total = sum(len(p) for p in packets)
    if total == 0:
        return [], "empty"
    mode = rng.choice(["uniform", "uniform", "onebyte", "all", "aimed", "aimed", "packets", "big"])
    if mode == "all":
        return [total], mode
    if mode == "onebyte":
        return [1] * min(total, 1500), mode
    if mode == "packets":
        # whole packets, sometimes several per chunk
        sizes = []
        i = 0
        while i < len(packets):
            n = rng.choice([1, 1, 2, 3, 7])
            sizes.append(sum(len(p) for p in packets[i:i + n]))
            i += n
        return sizes, mode
    if mode == "big":
        sizes = []
        left = total
        while left > 0:
            n = min(left, rng.choice([100, 200, 1000, 4096]))
            sizes.append(n)
            left -= n
        return sizes, mode
    if mode == "uniform":
        sizes = []
        left = total
        hi = rng.choice([3, 8, 13, 20, 40, 100])
        while left > 0:
            n = min(left, rng.randrange(1, hi + 1))
            sizes.append(n)
            left -= n
        return sizes, mode
    # aimed: cut inside headers / line endings / markers
    cutset = set()
    pos = 0
    for p in packets:
        if kind == "ebyte":
            cand = [pos + rng.randrange(1, 5), pos + 5, pos + 12]
        elif kind == "waveshare":
            cand = [pos + 1, pos + 2, pos + rng.randrange(5, 9), pos + 19]
            inner = p.find(b"\xaa\x55", 2)
            if inner != -1:
                cand += [pos + inner, pos + inner, pos + inner + 1]      # a read that starts with a marker inside a packet
        else:
            cand = [pos + len(p) - 1, pos + len(p) - 2, pos + rng.randrange(0, max(1, len(p)))]
        for c in cand:
            if rng.random() < 0.5 and 0 < c < total:
                cutset.add(c)
        pos += len(p)
    cl = sorted(cutset)
    sizes = [b - a for a, b in zip([0] + cl, cl + [total]) if b > a]
    return sizes, mode


def cut_probes(packets, chunks, kind):
    """Which interesting places did the segmentation cut? (counted for the evidence)"""
    bounds = set()
    pos = 0
    for c in chunks:
        pos += c
        bounds.add(pos)
    st = {}
    pos = 0
    for p in packets:
        L = len(p)
        if kind == "ebyte":
            if any((pos + k) in bounds for k in range(1, 5)):
                st["cut_inside_ebyte_header"] = st.get("cut_inside_ebyte_header", 0) + 1
        elif kind == "waveshare":
            if (pos + 1) in bounds and p[:2] == b"\xaa\x55":
                st["cut_inside_marker"] = st.get("cut_inside_marker", 0) + 1
        else:
            if L >= 2 and (pos + L - 1) in bounds and p.endswith(b"\r\n"):
                st["cut_inside_crlf"] = st.get("cut_inside_crlf", 0) + 1
        if any(pos < b < pos + L for b in bounds):
            st["packet_split_across_reads"] = st.get("packet_split_across_reads", 0) + 1
        pos += L
    return st


# ---- tagged packets (attributable single-frame messages) --------------------------------

def tagged_packet(kind, tag, src=3):
    """Vessel Heading (127250) whose SID field carries `tag` (0..252)."""
    data = bytes([tag & 0xFF, 0x10, 0x20, 0x00, 0x00, 0x00, 0x00, 0xFC])
    idn = n2k.can_id(127250, src, 255, 2)
    if kind == "ebyte":
        return n2k.wire_ebyte(idn, data)
    if kind == "waveshare":
        return n2k.wire_usb(idn, data)
    if kind == "yd":
        return n2k.wire_yd(idn, data)
    return (n2k.actisense_line(127250, src, 255, 2, data) + "\r\n").encode()


def tag_of(msg):
    try:
        if msg.PGN != 127250:
            return None
        return msg.fields[0].value
    except Exception:
        return None


def garbage(rng, kind):
    """Bytes that are not a valid packet for this client kind."""
    if kind == "ebyte":
        return rbytes(rng, rng.choice([1, 5, 12, 13, 20]))
    if kind == "waveshare":
        return rbytes(rng, rng.choice([1, 7, 19, 33]))
    if rng.random() < 0.15:
        # a "line" longer than the 64 KiB the stream reader accepts: the client may drop the connection or skip it,
        # it must not stall
        return (b"x" * 1000) * rng.choice([66, 70, 130])
    return rng.choice([b"garbage", b"\xff\xfe\x00\x01", b"A1 2 3\r\nxyz", b"00:00 R\r\n\r\npartial"])
