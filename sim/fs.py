"""In-memory file system behind the decoder's dump-file seam (`open` / `os.*` as seen by nmea2000.decoder).

The fake answers the whole text/binary file interface a maintainer may reasonably use for an append-only dump file
(write, writelines, flush, fsync through fileno, truncate, read back, rename/replace/remove, exists/getsize ...): a
missing method would surface as an exception inside the library and be mistaken for a defect of the library.
"""
import io
import os as _os

_FD_BASE = 100000


class FakeFile:
    def __init__(self, fs, path, mode, encoding=None):
        self.fs = fs
        self.path = self.name = path
        self.mode = mode
        self.binary = "b" in mode
        self.encoding = None if self.binary else (encoding or "utf-8")
        self.closed = False
        self.flushes = 0
        self.fd = _FD_BASE + len(fs.handles)
        self.pos = 0

    # -- helpers ---------------------------------------------------------------------------------------
    def _check(self):
        if self.closed:
            raise ValueError("I/O operation on closed file.")

    def _text(self, s):
        if self.binary:
            if not isinstance(s, (bytes, bytearray, memoryview)):
                raise TypeError("a bytes-like object is required, not '%s'" % type(s).__name__)
            return bytes(s).decode("utf-8", errors="surrogateescape")
        if not isinstance(s, str):
            raise TypeError("write() argument must be str, not %s" % type(s).__name__)
        return s

    # -- writing ---------------------------------------------------------------------------------------
    def writable(self):
        return any(c in self.mode for c in "wax+")

    def write(self, s):
        self._check()
        if not self.writable():
            raise io.UnsupportedOperation("not writable")
        t = self._text(s)
        self.fs.files[self.path].append(t)
        self.fs.log.append(("write", self.path, len(t)))
        return len(s)

    def writelines(self, lines):
        for l in lines:
            self.write(l)

    def flush(self):
        self._check()
        self.flushes += 1
        self.fs.log.append(("flush", self.path))

    def truncate(self, size=None):
        self._check()
        cur = self.fs.content(self.path)
        size = self.pos if size is None else size
        self.fs.files[self.path] = [cur[:size]]
        return size

    # -- reading (for '+' and 'r' modes) -----------------------------------------------------------------
    def readable(self):
        return "r" in self.mode or "+" in self.mode

    def _all(self):
        c = self.fs.content(self.path)
        return c.encode("utf-8", errors="surrogateescape") if self.binary else c

    def read(self, n=-1):
        self._check()
        if not self.readable():
            raise io.UnsupportedOperation("not readable")
        data = self._all()
        out = data[self.pos:] if n is None or n < 0 else data[self.pos:self.pos + n]
        self.pos += len(out)
        return out

    def readline(self, *a):
        self._check()
        data = self._all()
        nl = b"\n" if self.binary else "\n"
        i = data.find(nl, self.pos)
        end = len(data) if i < 0 else i + 1
        out = data[self.pos:end]
        self.pos = end
        return out

    def readlines(self, *a):
        out = []
        while True:
            l = self.readline()
            if not l:
                return out
            out.append(l)

    def __iter__(self):
        return iter(self.readlines())

    def seek(self, off, whence=0):
        self._check()
        n = len(self._all())
        self.pos = off if whence == 0 else (self.pos + off if whence == 1 else n + off)
        return self.pos

    def tell(self):
        self._check()
        return len(self._all()) if ("a" in self.mode or "w" in self.mode) else self.pos

    def seekable(self):
        return True

    # -- the rest ----------------------------------------------------------------------------------------
    def fileno(self):
        self._check()
        return self.fd

    def isatty(self):
        return False

    def close(self):
        if not self.closed:
            self.closed = True
            self.fs.log.append(("close", self.path))

    def __enter__(self):
        self._check()
        return self

    def __exit__(self, *a):
        self.close()

    @property
    def buffer(self):
        return self


class FakeFS:
    def __init__(self):
        self.files = {}
        self.handles = []
        self.dirs = set()
        self.log = []

    def open(self, path, mode="r", buffering=-1, encoding=None, errors=None, newline=None, *a, **kw):
        path = _os.fspath(path)
        if any(c in mode for c in "wax"):
            d = _os.path.dirname(path)
            if d and d not in self.dirs:
                raise FileNotFoundError(2, "No such file or directory", path)
            if "x" in mode and path in self.files:
                raise FileExistsError(17, "File exists", path)
            if "w" in mode or path not in self.files:
                self.files.setdefault(path, [])
                if "w" in mode:
                    self.files[path] = []
        elif path not in self.files:
            raise FileNotFoundError(2, "No such file or directory", path)
        h = FakeFile(self, path, mode, encoding)
        self.handles.append(h)
        self.log.append(("open", path, mode))
        return h

    def makedirs(self, name, mode=0o777, exist_ok=False):
        name = _os.fspath(name)
        if name in self.dirs and not exist_ok:
            raise FileExistsError(name)
        parts = name.split("/")
        for i in range(1, len(parts) + 1):
            self.dirs.add("/".join(parts[:i]))
        self.log.append(("makedirs", name))

    def mkdir(self, name, mode=0o777):
        name = _os.fspath(name)
        if name in self.dirs:
            raise FileExistsError(17, "File exists", name)
        parent = _os.path.dirname(name)
        if parent and parent not in self.dirs:
            raise FileNotFoundError(2, "No such file or directory", name)
        self.dirs.add(name)

    def content(self, path):
        return "".join(self.files.get(path, []))

    # -- os-level operations on fake paths -----------------------------------------------------------------
    def exists(self, p):
        p = _os.fspath(p)
        return p in self.files or p in self.dirs

    def isfile(self, p):
        return _os.fspath(p) in self.files

    def isdir(self, p):
        return _os.fspath(p) in self.dirs

    def getsize(self, p):
        p = _os.fspath(p)
        if p not in self.files:
            raise FileNotFoundError(2, "No such file or directory", p)
        return len(self.content(p).encode("utf-8", errors="surrogateescape"))

    def rename(self, src, dst, *a, **kw):
        src, dst = _os.fspath(src), _os.fspath(dst)
        if src not in self.files:
            raise FileNotFoundError(2, "No such file or directory", src)
        self.files[dst] = self.files.pop(src)
        self.log.append(("rename", src, dst))

    def remove(self, p, *a, **kw):
        p = _os.fspath(p)
        if p not in self.files:
            raise FileNotFoundError(2, "No such file or directory", p)
        del self.files[p]
        self.log.append(("remove", p))

    def listdir(self, d="."):
        d = _os.fspath(d).rstrip("/")
        return sorted({p[len(d) + 1:].split("/")[0] for p in list(self.files) + list(self.dirs) if p.startswith(d + "/")})

    def fsync(self, fd):
        if not (isinstance(fd, int) and fd >= _FD_BASE):
            fd = fd.fileno()
        self.log.append(("fsync", fd))


class _PathShim:
    def __init__(self, fs):
        self._fs = fs
        self.exists = self.lexists = fs.exists
        self.isfile = fs.isfile
        self.isdir = fs.isdir
        self.getsize = fs.getsize

    def __getattr__(self, name):
        return getattr(_os.path, name)


class _OsShim:
    def __init__(self, fs):
        self.path = _PathShim(fs)
        self.makedirs = fs.makedirs
        self.mkdir = fs.mkdir
        self.rename = self.replace = fs.rename
        self.remove = self.unlink = fs.remove
        self.listdir = fs.listdir
        self.fsync = self.fdatasync = fs.fsync

    def __getattr__(self, name):
        return getattr(_os, name)


class installed:
    """Context manager: route nmea2000.decoder's open()/os.*() to a FakeFS."""

    def __init__(self, fs):
        self.fs = fs

    def __enter__(self):
        import nmea2000.decoder as D
        self.D = D
        self.old_os = D.os
        self.had_open = "open" in D.__dict__
        self.old_open = D.__dict__.get("open")
        D.os = _OsShim(self.fs)
        D.open = self.fs.open
        return self.fs

    def __exit__(self, *a):
        D = self.D
        D.os = self.old_os
        if self.had_open:
            D.open = self.old_open
        else:
            del D.open
