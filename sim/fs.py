"""In-memory file system behind the decoder's dump-file seam (`open` / `os.makedirs` as seen by nmea2000.decoder)."""
import os as _os


class FakeFile:
    def __init__(self, fs, path, mode):
        self.fs = fs
        self.path = path
        self.mode = mode
        self.closed = False
        self.flushes = 0

    def write(self, s):
        if self.closed:
            raise ValueError("I/O operation on closed file.")
        if not isinstance(s, str):
            raise TypeError("write() argument must be str, not %s" % type(s).__name__)
        self.fs.files[self.path].append(s)
        self.fs.log.append(("write", self.path, len(s)))
        return len(s)

    def flush(self):
        self.flushes += 1
        self.fs.log.append(("flush", self.path))

    def close(self):
        if not self.closed:
            self.closed = True
            self.fs.log.append(("close", self.path))

    def __enter__(self):
        return self

    def __exit__(self, *a):
        self.close()


class FakeFS:
    def __init__(self):
        self.files = {}
        self.handles = []
        self.dirs = set()
        self.log = []

    def open(self, path, mode="r", *a, **kw):
        if "a" in mode or "w" in mode:
            d = _os.path.dirname(path)
            if d and d not in self.dirs:
                raise FileNotFoundError(2, "No such file or directory", path)
            if "w" in mode or path not in self.files:
                self.files.setdefault(path, [])
                if "w" in mode:
                    self.files[path] = []
            h = FakeFile(self, path, mode)
            self.handles.append(h)
            self.log.append(("open", path, mode))
            return h
        raise FileNotFoundError(2, "No such file or directory", path)

    def makedirs(self, name, mode=0o777, exist_ok=False):
        if name in self.dirs and not exist_ok:
            raise FileExistsError(name)
        parts = name.split("/")
        for i in range(1, len(parts) + 1):
            self.dirs.add("/".join(parts[:i]))
        self.log.append(("makedirs", name))

    def content(self, path):
        return "".join(self.files.get(path, []))


class _OsShim:
    def __init__(self, fs):
        self.path = _os.path
        self.makedirs = fs.makedirs

    def __getattr__(self, name):
        return getattr(_os, name)


class installed:
    """Context manager: route nmea2000.decoder's open()/os.makedirs() to a FakeFS."""

    def __init__(self, fs):
        self.fs = fs

    def __enter__(self):
        import nmea2000.decoder as D
        self.D = D
        self.old_os = D.os
        self.had_open = "open" in D.__dict__
        self.old_open = D.__dict__.get("open")
        D.os = _OsShim(self.fs)
        D.open = self.fs.open
        return self.fs

    def __exit__(self, *a):
        D = self.D
        D.os = self.old_os
        if self.had_open:
            D.open = self.old_open
        else:
            del D.open
