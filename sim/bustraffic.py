"""Seeded CAN bus histories (plan-building side): several sources, single-frame, fast-packet and claims."""
from . import n2k, catalog, traffic


def history(rng, n_items=None, sources=None, claims=True, unknown=True, incomplete=True, pad="rand",
            all_defs=False, multi_def_bias=False, repeat_seq=False, max_active=3, shared_names=False, burst_fast=0):
    """Returns a list of events {"f": [pgn, src, dst, prio, datahex], "k": kind, "m": message#, "i": frame#, "n": frames,
    "whole": payload hex (on the last frame of a complete message)} with fast-packet streams interleaved."""
    catalog.load()
    n_items = n_items or rng.choice([3, 6, 12, 25, 40])
    sources = sources or rng.sample(range(0, 253), rng.randrange(1, 5))
    seqs = {}
    known_names = []
    complete_last = {}
    lanes = []
    mno = 0
    for _ in range(n_items):
        k = rng.random()
        src = rng.choice(sources)
        prio = rng.randrange(8)
        if k < 0.38:
            if all_defs and rng.random() < 0.7:
                d = rng.choice([x for x in catalog.DEFS if x.get("fast") is False])
                data = catalog.payload_for(rng, d, 8)
                pgn = d["pgn"]
                dst = catalog.dst_for(pgn, rng)
                it = {"pgn": pgn, "src": src, "dst": dst, "prio": prio, "data": data}
            else:
                it = traffic.single_frame(rng, src, pgn=rng.choice(multi_single()) if multi_def_bias and rng.random() < 0.4 else None)
                it["prio"] = prio
            lanes.append([{"f": [it["pgn"], src, it["dst"], it["prio"], it["data"].hex()], "k": "single", "m": mno, "i": 0, "n": 1,
                           "whole": it["data"].hex()}])
        elif k < 0.66:
            if all_defs and rng.random() < 0.7:
                d = rng.choice([x for x in catalog.DEFS if x.get("fast") is True])
                payload = catalog.payload_for(rng, d)
                pgn = d["pgn"]
            else:
                pgn = rng.choice(traffic.FAST_POOL)
                if rng.random() < 0.5 and pgn in catalog.BY_PGN:
                    payload = catalog.payload_for(rng, rng.choice(catalog.BY_PGN[pgn]))
                else:
                    payload = traffic.rbytes(rng, rng.choice([1, 3, 5, 6, 7, 8, 13, 14, 20, 27, 43, 47, 90, 223]))
            dst = catalog.dst_for(pgn, rng)
            same = False
            if repeat_seq and seqs and rng.random() < 0.5:
                # revisit a stream that already carried a message; if that message was sent completely, sometimes
                # with the very same counter (a talker that does not advance it)
                pgn, src, dst = rng.choice(sorted(seqs))
                payload = traffic.rbytes(rng, rng.choice([3, 7, 8, 14, 20, 27]))
                same = complete_last.get((pgn, src, dst), False) and rng.random() < 0.5
            seq = seqs.get((pgn, src, dst), rng.randrange(8))
            if same:
                seq = (seq - 1) % 8
            seqs[(pgn, src, dst)] = (seq + 1) % 8
            p = pad if pad != "rand" else rng.choice([None, 0xFF, 0xFF, 0x00])
            frames = n2k.fast_frames(payload, seq, p)
            cut = len(frames)
            if incomplete and len(frames) > 1 and rng.random() < 0.12:
                cut = rng.randrange(1, len(frames))
            complete_last[(pgn, src, dst)] = cut == len(frames)
            lane = []
            for i, f in enumerate(frames[:cut]):
                e = {"f": [pgn, src, dst, prio, f.hex()], "k": "fast", "m": mno, "i": i, "n": len(frames)}
                if i == len(frames) - 1:
                    e["whole"] = payload.hex()
                lane.append(e)
            lanes.append(lane)
        elif k < 0.80 and claims:
            if shared_names and known_names and rng.random() < 0.4:
                # a NAME that was already claimed, now from this (possibly different) address: a device that moved
                mfg_, uniq_ = rng.choice(known_names)
                it = traffic.claim_frame(rng, src, mfg_, uniq_)
                it["data"], it["name"] = n2k.claim_payload(uniq_, mfg_, 1, 2, 130, 25, 0, 4, 1)
            else:
                it = traffic.claim_frame(rng, src)
                if shared_names:
                    uniq_ = rng.getrandbits(21)
                    it["data"], it["name"] = n2k.claim_payload(uniq_, it["mfg"], 1, 2, 130, 25, 0, 4, 1)
                    known_names.append((it["mfg"], uniq_))
            lanes.append([{"f": [it["pgn"], src, 255, 6, it["data"].hex()], "k": "claim", "m": mno, "i": 0, "n": 1,
                           "whole": it["data"].hex(), "mfg": it["mfg"], "name": it["name"]}])
        elif k < 0.88 and unknown:
            lanes.append([{"f": [rng.choice(traffic.UNKNOWN_POOL), src, 255, 3, traffic.rbytes(rng, 8).hex()], "k": "unknown",
                           "m": mno, "i": 0, "n": 1, "whole": None}])
        else:
            it = traffic.single_frame(rng, src)
            lanes.append([{"f": [it["pgn"], src, it["dst"], prio, it["data"].hex()], "k": "single", "m": mno, "i": 0, "n": 1,
                           "whole": it["data"].hex()}])
        mno += 1
    if burst_fast:
        # many devices answering at once (e.g. a product-information request): that many transfers are in flight together
        pgn = rng.choice([126996, 126998, 129029])
        used = set()
        burst = []
        for _ in range(burst_fast):
            src = rng.choice([x for x in range(0, 250) if x not in used])
            used.add(src)
            payload = traffic.rbytes(rng, rng.choice([20, 43, 134])) if pgn != 126996 else catalog.payload_for(rng, catalog.BY_PGN[126996][0])
            frames = n2k.fast_frames(payload, rng.randrange(8), 0xFF)
            lane = []
            for i, f in enumerate(frames):
                e = {"f": [pgn, src, 255, 6, f.hex()], "k": "fast", "m": mno, "i": i, "n": len(frames)}
                if i == len(frames) - 1:
                    e["whole"] = payload.hex()
                lane.append(e)
            mno += 1
            burst.append(lane)
        return interleave(rng, burst, burst_fast + 1) + interleave(rng, lanes, max_active)
    return interleave(rng, lanes, max_active)


_multi = []


def multi_single():
    if not _multi:
        catalog.load()
        _multi.extend(p for p in catalog.SINGLE if len(catalog.BY_PGN.get(p, [])) > 1)
    return _multi


def interleave(rng, lanes, max_active=3):
    out = []
    active = []
    pending = list(lanes)
    while pending or active:
        if pending and (len(active) < max_active and (not active or rng.random() < (0.5 if max_active <= 3 else 0.9))):
            lane = pending.pop(0)
            key = tuple(lane[0]["f"][:3]) if lane[0]["k"] == "fast" else None
            if key is not None:
                for a in list(active):
                    if a[1] == key:
                        out.extend(a[0])
                        active.remove(a)
            active.append([list(lane), key])
        else:
            a = rng.choice(active)
            out.append(a[0].pop(0))
            if not a[0]:
                active.remove(a)
    return out
