"""CLI of the nmea2000 deterministic-simulation checks (see DESIGN.md section 6)."""
import argparse
import logging
import os
import sys

HERE = os.path.dirname(os.path.abspath(__file__))
REPO = os.environ.get("VERIF_REPO", "/repo")
sys.path.insert(0, HERE)
sys.path.insert(0, REPO)           # the check always imports the current working tree
logging.disable(logging.CRITICAL)  # no formatter ever reads a clock


def main():
    ap = argparse.ArgumentParser(prog="vcheck")
    sub = ap.add_subparsers(dest="cmd", required=True)
    r = sub.add_parser("run")
    r.add_argument("prop")
    r.add_argument("--tier", default=os.environ.get("VERIF_TIER") or "quick", choices=["quick", "thorough"])
    r.add_argument("--runs", type=int, default=None)
    r.add_argument("--budget", type=float, default=None)
    r.add_argument("--jobs", type=int, default=None)
    p = sub.add_parser("replay")
    p.add_argument("path")
    s = sub.add_parser("selftest")
    s.add_argument("what", nargs="?", default="smoke")
    s.add_argument("--n", type=int, default=200)
    s.add_argument("--props", default=None)
    a = ap.parse_args()
    try:
        import nmea2000  # noqa: F401
        if not os.path.abspath(nmea2000.__file__).startswith(os.path.abspath(REPO)):
            sys.stderr.write("HARNESS-ERROR: nmea2000 imported from %s, not from %s\n" % (nmea2000.__file__, REPO))
            return 2
    except Exception as e:      # a tree that does not import is not a property violation
        sys.stderr.write("HARNESS-ERROR: cannot import nmea2000 from %s: %r\n" % (REPO, e))
        return 2
    from sim import runner
    seed = int(os.environ.get("VERIF_SEED") or 0)
    if a.cmd == "run":
        return runner.run_check(a.prop.upper(), a.tier, seed, jobs=a.jobs, budget=a.budget, runs=a.runs)
    if a.cmd == "replay":
        return runner.replay(a.path)
    if a.cmd == "selftest":
        from sim import selftest
        return selftest.main(a.what, a.n, seed, a.props)
    return 2


if __name__ == "__main__":
    sys.exit(main())
