"""show_A: what happens to a fast-packet message that was cut off by the loss of the connection.

A fake Yacht Devices gateway (loopback, ephemeral port) serves two connections:
  connection 1: frames 0,1,2 of a 7-frame GNSS Position message (PGN 129029, sequence 0), then it hangs up
  connection 2: frames 3,4,5,6 of ANOTHER PGN 129029 message that happens to have sequence 0 as well
                (its frames 0-2 were sent while the client was away), then a single-frame message
                (PGN 130311) and one complete PGN 129029 message (sequence 1)
The program prints what the receive callback got. Exit code is always 0.
"""
import asyncio
import logging

from nmea2000.ioclient import YachtDevicesNmea2000Gateway

logging.disable(logging.CRITICAL)

GNSS = [  # tests/recombine-frames.in, PGN 129029 from source 0, bytes in wire order
    "00 2f e7 95 3d 00 73 d6", "01 29 00 da 04 73 db c9", "02 e5 05 80 7d 02 28 5f", "03 d6 10 f6 9b 50 6c 05",
    "04 00 00 00 00 13 fc 08", "05 6f 00 be 00 dd f2 ff", "06 ff 00 ff ff ff ff ff"]
OTHER_TAIL = [  # frames 3..6 of a different message with the same sequence counter
    "03 d6 11 f6 9b 50 6c 05", "04 00 00 00 00 13 fc 08", "05 6f 00 be 00 dd f2 ff", "06 ff 00 ff ff ff ff ff"]


def yd(can_id: str, data: str) -> bytes:
    return f"00:01:54.430 R {can_id} {data.upper()}\r\n".encode()


def seq1(frame: str) -> str:
    return f"{int(frame[:2], 16) | 0x20:02x}{frame[2:]}"


CONNECTION_1 = b"".join(yd("0DF80500", f) for f in GNSS[:3])
CONNECTION_2 = (b"".join(yd("0DF80500", f) for f in OTHER_TAIL)
                + yd("15FD0723", "c5 c0 1c 6e ff 7f ff ff")
                + b"".join(yd("0DF80500", seq1(f)) for f in GNSS))


async def main():
    connections = 0
    served_second = asyncio.Event()

    async def gateway(reader, writer):
        nonlocal connections
        connections += 1
        if connections == 1:
            writer.write(CONNECTION_1)
            await writer.drain()
            await asyncio.sleep(0.2)
            writer.close()          # the link drops in the middle of the fast-packet message
        elif connections == 2:
            writer.write(CONNECTION_2)
            await writer.drain()
            served_second.set()
            await asyncio.sleep(5)
            writer.close()
        else:
            writer.close()

    server = await asyncio.start_server(gateway, "127.0.0.1", 0)
    port = server.sockets[0].getsockname()[1]

    got = []

    async def on_message(message):
        got.append(message)

    client = YachtDevicesNmea2000Gateway("127.0.0.1", port)
    client.set_receive_callback(on_message)
    await client.connect()
    try:
        await asyncio.wait_for(served_second.wait(), timeout=20)
        await asyncio.sleep(0.5)
    except asyncio.TimeoutError:
        print("the client did not come back within 20 s")
    await client.close()
    server.close()

    print(f"connections served: {connections}")
    print(f"messages delivered to the callback: {len(got)}")
    for m in got:
        lon = next((f.value for f in m.fields if f.id == "longitude"), None)
        print(f"  PGN {m.PGN} {m.id}" + (f" longitude={lon}" if m.PGN == 129029 else ""))
    stitched = len([m for m in got if m.PGN == 129029]) > 1
    print("a message stitched together from frames of connection 1 and connection 2 was delivered:", stitched)


asyncio.run(main())
