"""show_C: what the decoder returns for a PGN that is NOT in the PGN database (outside C07's "known PGNs").

Clean tree : None (plus one warning in the log), whatever the input format.
Changed    : an opaque NMEA2000Message (id 'unknownPgn', description 'Unknown PGN', one BINARY field 'data'
             holding the data bytes in bus order) with the usual addressing / priority / timestamp / raw_can_data;
             exclude_pgns=['unknownPgn'] gives the old behaviour back.
Known PGNs decode exactly as before on both trees.
"""
import logging
from nmea2000.decoder import NMEA2000Decoder

logging.disable(logging.CRITICAL)


def can_id(pgn, src, dest, prio):
    pf = (pgn >> 8) & 0xFF
    ps = dest if pf < 0xF0 else pgn & 0xFF
    return (prio << 26) | (((pgn >> 16) & 3) << 24) | (pf << 16) | (ps << 8) | src


def ebyte(cid, data):
    return bytes([0x80 | len(data)]) + cid.to_bytes(4, "big") + data + bytes(8 - len(data))


def usb(cid, data):
    p = bytes([0xAA, 0x55, 0x01, 0x02, 0x01]) + cid.to_bytes(4, "little") + bytes([len(data)]) + data + bytes(8 - len(data)) + b"\x00"
    return p + bytes([sum(p[2:19]) & 0xFF])


def yd(cid, data):
    return "12:34:56.789 R %08X %s" % (cid, " ".join("%02X" % b for b in data))


def actisense(pgn, src, dest, prio, data):
    return "A000001.000 %05X %05X %s" % ((src << 12) | (dest << 4) | prio, pgn, data.hex().upper())


def plain(pgn, src, dest, prio, data):
    return "2024-01-01T00:00:00.000Z,%d,%d,%d,%d,%d,%s" % (prio, pgn, src, dest, len(data), ",".join("%02x" % b for b in data))


def summary(msg):
    if msg is None:
        return None
    return (msg.PGN, msg.id, msg.description, msg.source, msg.destination, msg.priority,
            tuple((f.id, f.value, f.raw_value) for f in msg.fields))


def all_formats(pgn, src, dest, prio, data, **kw):
    cid = can_id(pgn, src, dest, prio)
    return {
        "ebyte": NMEA2000Decoder(**kw).decode_tcp(ebyte(cid, data)),
        "usb": NMEA2000Decoder(**kw).decode_usb(usb(cid, data)),
        "yacht devices": NMEA2000Decoder(**kw).decode_yacht_devices_string(yd(cid, data)),
        "actisense": NMEA2000Decoder(**kw).decode_actisense_string(actisense(pgn, src, dest, prio, data)),
        "plain": NMEA2000Decoder(**kw).decode_basic_string(plain(pgn, src, dest, prio, data)),
        "plain (assembled)": NMEA2000Decoder(**kw).decode_basic_string(plain(pgn, src, dest, prio, data), True),
    }


DATA = bytes.fromhex("0102030405060708")

print("--- PGN 127000: not in the database")
res = all_formats(127000, 35, 255, 3, DATA)
for name, m in res.items():
    print("%-18s %s" % (name, summary(m)))
unknown = res["ebyte"]
print("BEHAVIOUR: an unknown PGN gives ->",
      "None (clean tree)" if unknown is None else "an opaque '%s' message (changed tree)" % unknown.id)
if unknown is not None:
    print("   json:", unknown.to_json())

print("--- PGN 127000 with exclude_pgns=['unknownPgn']")
res = all_formats(127000, 35, 255, 3, DATA, exclude_pgns=["unknownPgn"])
print("   ", {name: summary(m) for name, m in res.items()})

print("--- PGN 127250 (Vessel Heading): in the database, the same on both trees")
res = all_formats(127250, 35, 255, 2, bytes([0x07, 0x10, 0x27, 0x05, 0x00, 0x0A, 0x00, 0xFD]))
for name, m in res.items():
    print("%-18s %s" % (name, [(f.id, f.value) for f in m.fields]))
print("all formats identical for the known PGN (property C07):", len({summary(m) for m in res.values()}) == 1)
