"""show_B: length of the build_network_map discovery window (how long unclaimed sources are held back).

Clean tree : fixed 10 minutes.
Changed tree: 1 minute by default, configurable with the new keyword discovery_window (timedelta or seconds).
Time is simulated by moving decoder.started_at into the past. Exits 0 on both trees.
"""
import logging
from datetime import timedelta
from nmea2000.decoder import NMEA2000Decoder

logging.disable(logging.CRITICAL)

CLAIM_NAVICO = "2022-09-10T12:10:16.614Z,6,60928,{src},255,8,fb,9b,70,22,00,9b,50,c0"
HEADING = "2022-09-10T12:10:17.000Z,2,127250,{src},255,8,00,10,27,ff,7f,ff,7f,fd"


def probe(label: str, **kwargs) -> None:
    print(f"--- {label}")
    try:
        NMEA2000Decoder(build_network_map=True, **kwargs).close()
    except TypeError as ex:
        print(f"    not supported on this tree: {ex}")
        return
    for elapsed in (0, 30, 59, 61, 120, 300, 599, 601, 3600):
        dec = NMEA2000Decoder(build_network_map=True, exclude_manufacturer_code=["navico"], **kwargs)
        dec.started_at -= timedelta(seconds=elapsed)
        unclaimed = dec.decode_basic_string(HEADING.format(src=7))
        # the obligations of the property do not depend on the length of the window:
        assert unclaimed is None or unclaimed.source_iso_name is None          # never claimed -> no identity
        claim = dec.decode_basic_string(CLAIM_NAVICO.format(src=8))
        assert claim.source_iso_name.manufacturer_code == "Navico"
        after_claim = dec.decode_basic_string(HEADING.format(src=8))
        assert after_claim is None                                             # claimed + excluded -> never returned
        assert dec.source_to_iso_name.get(7) is None                           # claim of 8 did not touch 7
        print(f"    {elapsed:5d} s after start: data of a source that never claimed is "
              f"{'HELD BACK' if unclaimed is None else 'returned (identity None)'}; "
              f"data of claimed+excluded source: dropped")
        dec.close()


probe("default window")
probe("discovery_window=timedelta(minutes=10)  (the old value)", discovery_window=timedelta(minutes=10))
probe("discovery_window=45  (seconds)", discovery_window=45)
