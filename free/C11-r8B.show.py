"""show_B: a source claims with a manufacturer number that is not in the manufacturer table
(IsoName.manufacturer_code is None). Does its traffic pass an include_manufacturer_code list?"""
import logging
from nmea2000.decoder import NMEA2000Decoder

logging.disable(logging.CRITICAL)

NAVICO_NAME = 13857746478299126779          # NAME used by tests/test_decoder.py, manufacturer 275 = Navico
UNKNOWN_NAME = (NAVICO_NAME & ~(0x7FF << 21)) | (2046 << 21)   # same device, manufacturer number 2046 (not in table)


def claim(src, name):
    return "2022-09-10T12:10:16.614Z,6,60928,%d,255,8,%s" % (src, ",".join("%02x" % b for b in name.to_bytes(8, "little")))


def data(src):
    return "2021-01-30-20:43:21.684,6,126998,%d,255,19,07,01,68,65,6C,6C,6F,0c,00,77,00,F3,00,72,00,6C,00,64,00" % src


def brief(msg):
    if msg is None:
        return "None"
    iso = msg.source_iso_name
    return f"PGN {msg.PGN} src {msg.source} manufacturer={iso.manufacturer_code if iso else None} name={iso.name if iso else None}"


def run(title, **kw):
    print(title)
    d = NMEA2000Decoder(**kw)
    print("   src 5 claim (Navico)        ->", brief(d.decode_basic_string(claim(5, NAVICO_NAME), True)))
    print("   src 9 claim (number 2046)   ->", brief(d.decode_basic_string(claim(9, UNKNOWN_NAME), True)))
    print("   src 5 data                  ->", brief(d.decode_basic_string(data(5), True)))
    print("   src 9 data                  ->", brief(d.decode_basic_string(data(9), True)))
    d.close()


for mapping in (False, True):
    run(f"build_network_map={mapping}, include_manufacturer_code=['NAVICO']", include_manufacturer_code=["NAVICO"], build_network_map=mapping)
    run(f"build_network_map={mapping}, exclude_manufacturer_code=['garmin'] (unchanged)", exclude_manufacturer_code=["garmin"], build_network_map=mapping)
    run(f"build_network_map={mapping}, no manufacturer lists (unchanged)", build_network_map=mapping)
