"""Change C: destination column of the text formats for broadcast (PDU2) PGNs.

PGN 130306 (0x1FD02, wind data) is a PDU2 PGN: its CAN identifier has no destination, so the frame
level formats (EByte, USB, Yacht Devices) always report destination 255. The canboat plain format and
the Actisense format have a separate destination column; this program writes 17 into it and prints
what the decoder reports. Exits 0 on both trees.
"""
from nmea2000.decoder import NMEA2000Decoder
from nmea2000.encoder import NMEA2000Encoder


def summary(msg, with_dest=True):
    return (msg.PGN, msg.id, msg.source) + ((msg.destination,) if with_dest else ()) + (msg.priority,
            tuple((f.id, f.value, f.raw_value) for f in msg.fields))


dec = NMEA2000Decoder()
# the frame, through every format, with the destination a real bus gives it (255): the property's case
acti = dec.decode_actisense_string("A000057.067 22FF2 1FD02 075101744CFAFFFF")
enc = NMEA2000Encoder()
data = bytes.fromhex("075101744CFAFFFF")
plain = dec.decode_basic_string("2020-01-01T00:00:00.000Z,2,130306,34,255,8," + ",".join(f"{b:02x}" for b in data))
ebyte = dec.decode_tcp(enc.encode_ebyte(acti)[0])
usb = dec.decode_usb(enc.encode_usb(acti)[0])
yd = dec.decode_yacht_devices_string("00:00:57.067 R " + enc.encode_yacht_devices(acti)[0].decode())
all5 = [summary(m) for m in (acti, plain, ebyte, usb, yd)]
print("real frame, five formats, destinations:", [m[3] for m in all5])
assert all(m == all5[0] for m in all5)

# now a destination that no CAN identifier of this PGN can express
acti17 = dec.decode_actisense_string("A000057.067 22112 1FD02 075101744CFAFFFF")
plain17 = dec.decode_basic_string("2020-01-01T00:00:00.000Z,2,130306,34,17,8," + ",".join(f"{b:02x}" for b in data))
print("Actisense line with destination column 0x11 -> destination", acti17.destination)
print("plain line with destination column 17       -> destination", plain17.destination)
assert summary(acti17, False) == summary(plain17, False) == summary(acti, False)
assert acti17.destination == plain17.destination

# an addressed (PDU1) PGN keeps whatever destination it is sent to, on both trees
iso_req = dec.decode_basic_string("2012-06-17-15:02:11.000,6,59904,0,17,3,14,f0,01")
print("PDU1 PGN 59904 addressed to 17              -> destination", iso_req.destination)
assert iso_req.destination == 17

if acti17.destination == 17:
    print("RESULT: the destination column is reported as written (clean tree behaviour)")
else:
    assert acti17.destination == 255
    print("RESULT: broadcast PGNs are always reported with destination 255 (changed tree behaviour)")
