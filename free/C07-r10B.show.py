"""Change B: fast-packet frames numbered beyond the announced payload length.

A 20 byte fast-packet payload (PGN 130820, the one used in tests/test_decoder.py) needs exactly
frames 0, 1 and 2. We deliver frame 0, frame 1, then a stray frame numbered 5 (same sequence counter,
e.g. the tail of a longer message whose beginning was lost), then the genuine frame 2.
Prints what each call returns. Exits 0 on both trees.
"""
from nmea2000.decoder import NMEA2000Decoder

PGN, PRIO, SRC, DST = 130820, 7, 49, 255
payload = bytes.fromhex("a3990b80010200c63e05c708415652 4f54524f53".replace(" ", ""))
assert len(payload) == 20


def line(frame_bytes):
    data = ",".join(f"{b:02x}" for b in frame_bytes)
    return f"2020-08-22T13:52:52.054Z,{PRIO},{PGN},{SRC},{DST},{len(frame_bytes)},{data}"


def frames_of(payload, seq):
    out = [bytes([(seq << 5) | 0, len(payload)]) + payload[:6]]
    rest = payload[6:]
    idx = 1
    while rest:
        chunk, rest = rest[:7], rest[7:]
        out.append(bytes([(seq << 5) | idx]) + chunk + b"\xff" * (7 - len(chunk)))
        idx += 1
    return out


def summary(msg):
    if msg is None:
        return None
    return (msg.PGN, msg.id, msg.source, msg.destination, msg.priority,
            [(f.id, f.value, f.raw_value) for f in msg.fields])


ref = summary(NMEA2000Decoder().decode_basic_string(line(payload), True))
print("pre-assembled reference :", ref)

# complete, in-order delivery: identical on both trees and equal to the pre-assembled form
dec = NMEA2000Decoder()
res = [summary(dec.decode_basic_string(line(f))) for f in frames_of(payload, 2)]
print("in-order delivery       :", ["message" if r else None for r in res])
assert res[:-1] == [None, None] and res[-1] == ref

# delivery disturbed by a stray frame 5
f0, f1, f2 = frames_of(payload, 3)
stray = bytes([(3 << 5) | 5]) + bytes.fromhex("11223344556677")
dec = NMEA2000Decoder()
out = []
for name, fr in (("frame 0", f0), ("frame 1", f1), ("stray frame 5", stray), ("frame 2", f2)):
    r = summary(dec.decode_basic_string(line(fr)))
    out.append(r)
    print(f"  {name:14s}-> {'None' if r is None else ('CORRECT message' if r == ref else 'message with a HOLE: ' + str(r[5]))}")

if out[2] is not None:
    assert out[2] != ref and out[3] is None
    print("RESULT: the stray frame 'completes' the message with wrong content and the genuine one is lost (clean tree behaviour)")
else:
    assert out[3] == ref
    print("RESULT: the stray frame is ignored and the genuine message is delivered (changed tree behaviour)")
