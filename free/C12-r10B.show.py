"""show_B: how a burst of buffered frames is interleaved with the rest of the application.

A fake EByte gateway (loopback, ephemeral port) writes N identical 13-byte frames in one go. Besides the
client the application runs a "ticker" task that only does `await asyncio.sleep(0)` in a loop, i.e. it gets
a turn whenever the event loop gets control back. The receive callback never waits for anything.
Printed: what was delivered (identical on both trees) and how the work was interleaved (differs).
Exit code is always 0.
"""
import asyncio
import logging
import time

from nmea2000.ioclient import EByteNmea2000Gateway

logging.disable(logging.CRITICAL)

N = 2000
FRAME = bytes.fromhex("881cff00093f9fdcffffffffff")  # PGN 65280, tests/test_decoder.py


async def main():
    async def gateway(reader, writer):
        writer.write(FRAME * N)
        await writer.drain()
        await asyncio.sleep(10)
        writer.close()

    server = await asyncio.start_server(gateway, "127.0.0.1", 0)
    port = server.sockets[0].getsockname()[1]

    ticks = 0
    longest_stall = 0.0

    async def ticker():
        nonlocal ticks, longest_stall
        last = time.perf_counter()
        while True:
            await asyncio.sleep(0)
            now = time.perf_counter()
            if got:   # only while messages are being delivered
                longest_stall = max(longest_stall, now - last)
            last = now
            ticks += 1

    got = []
    backlog_at_first = None
    ticks_at_first = None
    ticks_at_last = None
    done = asyncio.Event()

    async def on_message(message):
        nonlocal backlog_at_first, ticks_at_first, ticks_at_last
        if not got:
            backlog_at_first = client.queue.qsize()
            ticks_at_first = ticks
        got.append(message.PGN)
        if len(got) == N:
            ticks_at_last = ticks
            done.set()

    client = EByteNmea2000Gateway("127.0.0.1", port)
    client.set_receive_callback(on_message)
    ticker_task = asyncio.create_task(ticker())
    await client.connect()
    try:
        await asyncio.wait_for(done.wait(), timeout=30)
    except asyncio.TimeoutError:
        print("not all messages arrived within 30 s")
    ticker_task.cancel()
    await client.close()
    server.close()

    print(f"frames sent: {N}, messages delivered: {len(got)}, all PGN 65280: {set(got) == {65280}}")
    print(f"frames already decoded and waiting behind the first message when the callback got it: {backlog_at_first}")
    if ticks_at_first is not None and ticks_at_last is not None:
        print(f"turns the ticker task got between the first and the last callback: {ticks_at_last - ticks_at_first}")
    print(f"longest time the ticker task had to wait for a turn during delivery: {longest_stall * 1000:.1f} ms")


asyncio.run(main())
