"""show_B: how many bytes does the serial client keep between reads?
Feeds a long stream (valid packets, 5000 bytes of noise, a corrupted and a truncated packet) in reads
of various sizes and prints the deliveries and the largest len(client._buffer) seen between reads.
Clean tree: at most 19. Changed tree (B): at most 59 (two handled packets kept as context + <20
unhandled bytes) - still a small constant however much noise arrives. Deliveries are identical."""
import asyncio, logging, random, sys
logging.disable(logging.CRITICAL)
from nmea2000.ioclient import WaveShareNmea2000Gateway
from nmea2000.utils import calculate_canbus_checksum

BASE = bytearray.fromhex("aa550102010900ff1c083f9fdcffffffffff00e5")

def pkt(tag):
    p = bytearray(BASE)
    p[17] = tag
    p[19] = calculate_canbus_checksum(p)
    assert b"\xaa\x55" not in p[2:]
    return bytes(p)

class Reader:
    def __init__(self, segs):
        self.segs = list(segs)
    async def read(self, n):
        return self.segs.pop(0) if self.segs else b""

async def run(stream, seg):
    c = WaveShareNmea2000Gateway("/dev/null")
    got = []
    async def cb(m):
        got.append(m.fields[-1].raw_value >> 8)
    c.set_receive_callback(cb)
    c._buffer = bytearray()
    segs = [stream[i:i + seg] for i in range(0, len(stream), seg)]
    c.reader = Reader(segs)
    held = 0
    for _ in segs:
        await c._receive_impl()
        held = max(held, len(c._buffer))
    await asyncio.sleep(0.01)
    recent = getattr(c, "recent_bytes", None)
    await c.close()
    return got, held, recent

async def main():
    rnd = random.Random(1)
    noise = bytes(rnd.choice([0x00, 0x55, 0x7f, 0xaa]) for _ in range(5000)).replace(b"\xaa\x55", b"\xaa\x00")
    bad = bytearray(pkt(7)); bad[11] ^= 0x04
    stream = (b"".join(pkt(t) for t in range(1, 7)) + noise + b"\xaa" + pkt(8) + pkt(9) + bytes(bad)
              + pkt(10) + pkt(11)[:9] + pkt(12) + pkt(13) + pkt(14) + noise + pkt(15) + pkt(16))
    worst = 0
    for seg in (1, 3, 19, 20, 21, 64, 100):
        got, held, recent = await run(stream, seg)
        worst = max(worst, held)
        print(f"read size {seg:>3}: delivered {got}  most bytes kept between reads: {held}")
        assert got == [1, 2, 3, 4, 5, 6, 8, 9, 10, 13, 14, 15, 16]
        assert held < 60          # fewer than three packets, whatever the amount of noise
    print("recent_bytes attribute:", "absent (clean tree)" if recent is None else recent.hex())
    print("most bytes kept between reads over all runs:", worst,
          "(changed tree B)" if worst > 19 else "(clean tree)")

asyncio.run(main())
sys.exit(0)
