"""show_C: the command line tool.
 (1) `decode --file LOG`: clean tree prints nothing for the decoded messages (they only go to parser.log),
     changed tree prints the JSON of every decoded message, one per line (as `decode --frame` always did).
 (2) `encode --file FILE` with a JSON-lines file (a decoder dump): clean tree fails (it expects one JSON document),
     changed tree prints one Actisense string per record.  A file with a single JSON document works on both.
The library API (to_json / from_json / decoder dump) is untouched."""
import json
import os
import subprocess
import sys
import tempfile
import nmea2000
from nmea2000.decoder import NMEA2000Decoder
from nmea2000.encoder import NMEA2000Encoder
from nmea2000.message import NMEA2000Message

root = os.path.dirname(os.path.dirname(os.path.abspath(nmea2000.__file__)))
tmp = tempfile.mkdtemp()                      # the CLI writes parser.log into its cwd: keep it out of the repo
env = dict(os.environ, PYTHONPATH=root)

def cli(*args):
    p = subprocess.run([sys.executable, "-m", "nmea2000.cli", *args], cwd=tmp, env=env, capture_output=True, text=True, timeout=120)
    return p.returncode, p.stdout.splitlines(), p.stderr.strip().splitlines()

LOG = ["# two single-frame messages",
       "2012-06-17-15:02:11.000,6,59904,0,255,3,14,f0,01",
       "2022-09-28-11:36:59.668,7,65280,9,255,8,3f,9f,dc,ff,ff,ff,ff,ff"]
log_path = os.path.join(tmp, "bus.log")
with open(log_path, "w") as fh:
    fh.write("\n".join(LOG) + "\n")

print("(1) nmea2000-cli decode --file bus.log")
rc, out, err = cli("decode", "--file", log_path)
print("    exit code %d, %d line(s) on stdout" % (rc, len(out)))
for line in out:
    d = json.loads(line)
    print("    JSON line: PGN=%s id=%s fields=%d" % (d["PGN"], d["id"], len(d["fields"])))
print("BEHAVIOUR (1):", "decoded messages are printed as JSON lines" if out else "decoded messages are not printed")

# a dump written by the library: the property's format, one JSON text per line
dump_path = os.path.join(tmp, "dump.jsonl")
with NMEA2000Decoder(dump_to_file=dump_path) as dec:
    msgs = [dec.decode_basic_string(l) for l in LOG[1:]]
with open(dump_path) as fh:
    dump_lines = fh.read().splitlines()
assert dump_lines == [m.to_json() for m in msgs]           # the dump itself: same on both trees
expected = [NMEA2000Encoder().encode_actisense(NMEA2000Message.from_json(l)) for l in dump_lines]

print("(2) nmea2000-cli encode --file dump.jsonl   (a 2-record decoder dump)")
rc, out, err = cli("encode", "--file", dump_path)
print("    exit code %d, stdout %r" % (rc, out))
if rc != 0:
    print("    stderr ends with:", err[-1] if err else "")
print("BEHAVIOUR (2):", "JSON-lines file is encoded record by record" if (rc == 0 and out == expected) else "JSON-lines file is rejected")

one_path = os.path.join(tmp, "one.json")
with open(one_path, "w") as fh:
    fh.write(json.dumps(json.loads(dump_lines[1]), indent=2))    # one pretty printed document, several lines
rc, out, err = cli("encode", "--file", one_path)
print("(3) nmea2000-cli encode --file one.json     (one pretty printed document): exit code %d, stdout %r" % (rc, out))
assert rc == 0 and out == [expected[1]]
