"""show_B: a frame that is late - it turns up after the NEXT message of the same stream has started.

The history below is OUTSIDE the quantifier of C04 (C04 lets the non-first frames of a message be reordered
among themselves, duplicated or lost; it never moves a frame of one message behind the first frame of the
following message of the same stream - the clean tree would not satisfy "each message all of whose frames
arrive is returned" there).
Clean tree : the first frame of M2 throws M1's frames away; M1's late frame is ignored; M1 is never returned.
Changed    : every sequence counter of a stream has its own buffer; the late frame completes M1.
Exits 0 on both trees.
"""
from nmea2000.decoder import NMEA2000Decoder
from nmea2000.encoder import NMEA2000Encoder

PGN, PRIO, SRC, DST = 127496, 5, 7, 255  # "Trip Parameters, Vessel": decodes any bytes


class Tap(NMEA2000Decoder):
    """Decoder that also remembers the payload handed to the PGN decoding function."""
    def __init__(self):
        super().__init__()
        self.payloads = []

    def _call_decode_function(self, pgn, priority, src, dest, timestamp, data, *a, **kw):
        self.payloads.append(bytes(data[::-1]))  # back to bus order
        return super()._call_decode_function(pgn, priority, src, dest, timestamp, data, *a, **kw)


def frames(seq, payload):
    """Fast packet frames (8 data bytes each, 0xFF padded) of one message."""
    out, chunks = [], [payload[:6]] + [payload[i:i + 7] for i in range(6, len(payload), 7)]
    for n, chunk in enumerate(chunks):
        head = bytes([(seq << 5) | n]) + (bytes([len(payload)]) if n == 0 else b"")
        out.append((head + chunk).ljust(8, b"\xff"))
    return out


def packet(data8):
    frame_id = NMEA2000Encoder._build_header(PGN, SRC, DST, PRIO)
    return bytes([0x88]) + frame_id.to_bytes(4, "big") + data8


def main():
    m1 = bytes(range(0x10, 0x10 + 20))      # seq 0, 20 bytes -> frames 0..2
    m2 = bytes(range(0x40, 0x40 + 20))      # seq 1, 20 bytes -> frames 0..2
    f1, f2 = frames(0, m1), frames(1, m2)
    history = [("M1 frame 0", f1[0]), ("M1 frame 1", f1[1]),
               ("M2 frame 0", f2[0]),
               ("M1 frame 2 (late)", f1[2]),
               ("M2 frame 2", f2[2]), ("M2 frame 1", f2[1])]

    dec = Tap()
    for label, f in history:
        before = len(dec.payloads)
        dec.decode_tcp(packet(f))
        got = dec.payloads[before:]
        print(f"{label:18s} {f.hex()} -> {'message, payload ' + got[0].hex() if got else 'None'}")

    sent = {m1: "M1", m2: "M2"}
    print()
    for p in dec.payloads:
        print("returned payload", p.hex(), "=", sent.get(p, "NOT A PAYLOAD THAT WAS SENT"))
    print("reassembly buffers left:", sorted(dec.data))
    assert all(p in sent for p in dec.payloads) and m2 in dec.payloads
    if m1 in dec.payloads:
        print("=> the late frame completed M1 although M2 had already started (changed tree)")
    else:
        print("=> M1 was abandoned when M2 started; its late frame was ignored (clean tree)")


if __name__ == "__main__":
    main()
