"""show_C: how long after a failed write does the reconnection start?

An EByte client (subclass that replaces only the link set-up by fake links) sends a 3-packet message;
the link fails at the 2nd packet (drain() raises ConnectionResetError).  The program prints the
status notifications and the moment the client starts to reconnect, relative to the failure, then
sends a message on the new link.  A bad message (unknown PGN) is sent first to show that it writes
nothing and changes nothing.
Exits 0 on the clean and on the changed tree.
"""
import asyncio
import inspect
import logging
import re

import nmea2000.pgns as P
from nmea2000.ioclient import EByteNmea2000Gateway, State
from nmea2000.message import NMEA2000Message, NMEA2000Field

logging.disable(logging.CRITICAL)


def mk(pgn, src=1):
    ids = re.findall(r'get_field_by_id\("(\w+)"\)', inspect.getsource(getattr(P, 'encode_pgn_%d' % pgn)))
    return NMEA2000Message(PGN=pgn, priority=6, source=src, destination=255,
                           fields=[NMEA2000Field(id=i, value=1, raw_value=1) for i in ids])


class FakeWriter:
    def __init__(self, name, fail_at=None):
        self.name = name
        self.written = []
        self.fail_at = fail_at      # 1-based index of the write whose drain() fails
        self.failed_time = None
        self.closed = False

    def write(self, data):
        self.written.append(bytes(data))

    async def drain(self):
        await asyncio.sleep(0)
        if self.fail_at is not None and len(self.written) >= self.fail_at:
            if self.failed_time is None:
                self.failed_time = asyncio.get_running_loop().time()
            raise ConnectionResetError("link down")

    def close(self):
        self.closed = True

    def is_closing(self):
        return self.closed

    def get_extra_info(self, name, default=None):
        return default


class Client(EByteNmea2000Gateway):
    def __init__(self):
        super().__init__("127.0.0.1", 1)
        self.links = []
        self.connect_times = []

    async def _connect_impl(self):
        self.connect_times.append(asyncio.get_running_loop().time())
        fail_at = 2 if not self.links else None       # only the first link breaks
        self.writer = FakeWriter(f"link{len(self.links) + 1}", fail_at)
        self.links.append(self.writer)

    async def _receive_impl(self):
        await asyncio.Event().wait()                   # a silent gateway


async def main():
    loop = asyncio.get_running_loop()
    client = Client()
    print("client.reconnect_holdoff attribute:", getattr(client, "reconnect_holdoff", "(none)"))
    events = []
    reconnected = asyncio.Event()

    async def on_status(state):
        events.append((loop.time(), state))
        if state == State.CONNECTED and len(client.links) >= 2:
            reconnected.set()
    client.set_status_callback(on_status)

    await client.connect()
    link1 = client.links[0]

    # a message that cannot be sent: writes nothing, changes nothing
    before = (client.state, client.writer, len(events), len(client.connect_times))
    await client.send(NMEA2000Message(PGN=123456, priority=6, source=1, destination=255))
    await asyncio.sleep(0.05)
    after = (client.state, client.writer, len(events), len(client.connect_times))
    print("bad message: packets written =", len(link1.written), "; connection, state, notifications, connects unchanged:", before == after)
    assert len(link1.written) == 0 and before == after

    msg = mk(128275)                                   # 3 packets
    expected = client.encoder.__class__().encode_ebyte(msg)
    await client.send(msg)
    t_fail = link1.failed_time
    print(f"link1: wrote {len(link1.written)} of {len(expected)} packets before the write failed; "
          f"they are the first packets of the message, in order: {link1.written == expected[:len(link1.written)]}")
    print("state right after the failed send():", client.state)
    assert client.state == State.DISCONNECTED

    await asyncio.wait_for(reconnected.wait(), timeout=10)
    for t, st in events[1:]:
        print(f"  status {st.name:12s} at failure {(t - t_fail) * 1000:+8.1f} ms")
    delay = client.connect_times[1] - t_fail
    print(f"  reconnection started  at failure {delay * 1000:+8.1f} ms")
    print("number of link set-ups:", len(client.connect_times), "; state:", client.state)
    assert client.state == State.CONNECTED and len(client.links) == 2

    msg2 = mk(127506)
    await client.send(msg2)
    link2 = client.links[1]
    print(f"link2: message sent after the reconnection wrote {len(link2.written)} packets; link1 got no more: {len(link1.written) == 2}")

    if delay < 0.2:
        print(f"-> reconnection starts immediately after the failed write ({delay * 1000:.1f} ms): clean tree behaviour")
    else:
        print(f"-> reconnection starts after a hold-off ({delay:.2f} s): change C")
    await client.close()
    print("final state:", client.state)


asyncio.run(main())
