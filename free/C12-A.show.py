"""show_A: how far does the client read ahead of a slow receive callback?

300 valid EByte frames are already available on the transport. The receive callback is held
inside the first message for a while. We print how many frames the client has taken off the
transport / how many decoded messages it holds in memory meanwhile, then release the callback and
check that all 300 messages arrive exactly once and in wire order (this part is the same on both
trees).
"""
import asyncio
import logging

from nmea2000.decoder import NMEA2000Decoder
from nmea2000.ioclient import EByteNmea2000Gateway

logging.disable(logging.CRITICAL)

N = 300


def frame(i: int) -> bytes:
    # PGN 127257 (Attitude), source 16, priority 5; the first data byte (SID) carries the index
    return bytes([0x88]) + bytes.fromhex("15F11910") + bytes([i % 250]) + bytes.fromhex("0000E50B1DFFFF")


async def main() -> int:
    client = EByteNmea2000Gateway("127.0.0.1", 1)
    reader = asyncio.StreamReader()
    client.reader = reader
    stream = b"".join(frame(i) for i in range(N))
    reader.feed_data(stream)

    release = asyncio.Event()
    got = []

    async def callback(msg):
        got.append(msg.fields[0].value)
        if len(got) == 1:
            await release.wait()  # a slow application

    client.set_receive_callback(callback)
    client._receive_task = asyncio.create_task(client._receive_loop())

    await asyncio.sleep(0.3)
    unread = len(reader._buffer)
    print(f"queue bound (queue.maxsize)              : {client.queue.maxsize} (0 = unbounded)")
    print(f"while the callback is busy with message 1:")
    print(f"  frames taken off the transport         : {(len(stream) - unread) // 13} of {N}")
    print(f"  decoded messages held in memory        : {client.queue.qsize()}")
    print(f"  bytes left for the transport to buffer : {unread}")

    release.set()
    for _ in range(200):
        if len(got) == N:
            break
        await asyncio.sleep(0.02)

    reference = NMEA2000Decoder()
    expected = [m.fields[0].value for m in (reference.decode_tcp(frame(i)) for i in range(N)) if m is not None]
    print(f"after the callback is released           : {len(got)} messages delivered, "
          f"same as reference decoder, in order, once each: {got == expected}")
    await client.close()
    return 0 if got == expected else 1


if __name__ == "__main__":
    raise SystemExit(asyncio.run(main()))
