"""show_A: are the ISO address claims of an excluded / not-included manufacturer handed to the caller?

clean tree  : the claim message (PGN 60928) of an excluded manufacturer IS returned
changed tree: the claim is recorded (identity map updated) but NOT returned
In both trees: data of the excluded manufacturer is never returned, identities are per address.
"""
import logging
from nmea2000.decoder import NMEA2000Decoder

logging.disable(logging.CRITICAL)

GARMIN, NAVICO = 229, 275


def name64(unique, mfr, dev_class=25, function=130, inst=0, sys_inst=0, industry=4, aac=1):
    return (unique & 0x1FFFFF) | (mfr << 21) | ((inst & 0xFF) << 32) | (function << 40) | (dev_class << 49) \
        | (sys_inst << 56) | (industry << 60) | (aac << 63)


def claim(src, name):
    data = ",".join(f"{b:02x}" for b in name.to_bytes(8, "little"))
    return f"2022-09-10T12:10:16.614Z,6,60928,{src},255,8,{data}"


def data(src):  # PGN 127250 vessel heading, single frame
    return f"2022-09-10T12:10:17.000Z,2,127250,{src},255,8,00,10,27,ff,7f,ff,7f,fd"


def describe(msg):
    if msg is None:
        return "None"
    iso = msg.source_iso_name
    return f"PGN {msg.PGN} src={msg.source} identity=" + ("None" if iso is None else f"{iso.manufacturer_code}/{iso.unique_number}")


for title, kwargs in (("exclude_manufacturer_code=['gArMiN']", dict(exclude_manufacturer_code=["gArMiN"])),
                      ("include_manufacturer_code=['NAVICO']", dict(include_manufacturer_code=["NAVICO"]))):
    for netmap in (False, True):
        d = NMEA2000Decoder(build_network_map=netmap, **kwargs)
        print(f"--- {title} build_network_map={netmap}")
        r_claim_g = d.decode_basic_string(claim(10, name64(111, GARMIN)), True)
        r_claim_n = d.decode_basic_string(claim(20, name64(222, NAVICO)), True)
        r_data_g = d.decode_basic_string(data(10), True)
        r_data_n = d.decode_basic_string(data(20), True)
        print("claim  of Garmin @10 ->", describe(r_claim_g), "   <-- differs between the trees")
        print("claim  of Navico @20 ->", describe(r_claim_n))
        print("data   of Garmin @10 ->", describe(r_data_g))
        print("data   of Navico @20 ->", describe(r_data_n))
        print("identity map          ->", {k: v.manufacturer_code for k, v in sorted(d.source_to_iso_name.items())})
        # invariants of the property, true on both trees
        assert r_data_g is None
        assert r_data_n is not None and r_data_n.source_iso_name.unique_number == 222
        assert d.source_to_iso_name[10].unique_number == 111 and d.source_to_iso_name[20].unique_number == 222
        # address 10 is re-claimed by a Navico device: from now on it is let through, with the new identity
        r_reclaim = d.decode_basic_string(claim(10, name64(333, NAVICO)), True)
        r_data = d.decode_basic_string(data(10), True)
        print("re-claim @10 by Navico ->", describe(r_reclaim))
        print("data   @10 afterwards  ->", describe(r_data))
        assert r_reclaim is not None and r_data is not None and r_data.source_iso_name.unique_number == 333
        assert d.source_to_iso_name[20].unique_number == 222
        print("RESULT: claim of the excluded manufacturer returned:", r_claim_g is not None)
