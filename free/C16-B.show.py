"""show_B: a continuation frame whose frame counter lies beyond the length announced by the first frame.

PGN 128275 (Distance Log): 14 payload bytes = frames 0, 1, 2.  A stray frame number 5 that carries the
same sequence counter (e.g. the tail of a longer message from another talker using the same address)
arrives between frame 1 and frame 2.
Prints the outcome of every frame, and then the property's probe: the same message with a fresh sequence
counter, decoded on the same decoder and on a brand-new one (equal on both trees).
Exits 0 on both trees.
"""
import logging
from nmea2000.decoder import NMEA2000Decoder
from nmea2000.encoder import NMEA2000Encoder

logging.disable(logging.CRITICAL)

PGN, SRC, DEST, PRIO = 128275, 7, 255, 6
PAYLOAD = bytes(range(1, 15))
FID = NMEA2000Encoder._build_header(PGN, SRC, DEST, PRIO).to_bytes(4, "big")


def packet(chunk):
    return bytes([0x80 | len(chunk)]) + FID + chunk + bytes(8 - len(chunk))


def frames(seq, payload=PAYLOAD):
    chunks = [bytes([(seq << 5) | 0, len(payload)]) + payload[:6]]
    rest, i = payload[6:], 1
    while rest:
        chunks.append(bytes([(seq << 5) | i]) + rest[:7])
        rest, i = rest[7:], i + 1
    return [packet(c) for c in chunks]


def outcome(decoder, pkt):
    try:
        msg = decoder.decode_tcp(pkt)
    except Exception as e:  # noqa: BLE001
        return f"raised {type(e).__name__}: {e}"
    return "returned None" if msg is None else "returned " + msg.to_string_test_style()


def summary(msg):
    return None if msg is None else (msg.PGN, msg.id, msg.source, msg.destination, msg.priority,
                                     [(f.id, f.value, f.raw_value) for f in msg.fields])


SEQ = 3
f = frames(SEQ)
stray = packet(bytes([(SEQ << 5) | 5]) + b"\xEE" * 7)

d = NMEA2000Decoder()
print("frame 0            ->", outcome(d, f[0]))
print("frame 1            ->", outcome(d, f[1]))
print("stray frame 5      ->", outcome(d, stray))
print("frame 2 (last)     ->", outcome(d, f[2]))

probe = frames(seq=6)
got = [d.decode_tcp(p) for p in probe][-1]
fresh = NMEA2000Decoder()
want = [fresh.decode_tcp(p) for p in probe][-1]
print("probe              ->", "None" if got is None else got.to_string_test_style())
print("probe after this history == probe on a new decoder:", summary(got) == summary(want) and got is not None)
