"""Change A: time stamps given to messages decoded from the two text formats.

Prints the `timestamp` attribute of messages decoded from a Yacht Devices RAW line and from Actisense
N2K ASCII lines, and shows that PGN / addressing / priority / field values of an encoder round trip
are the same. Exits 0 on the clean and on the changed tree.
"""
from datetime import datetime
from nmea2000.decoder import NMEA2000Decoder
from nmea2000.encoder import NMEA2000Encoder

dec = NMEA2000Decoder()
enc = NMEA2000Encoder()
print("now                         :", datetime.now())

yd = dec.decode_yacht_devices_string("00:01:54.430 R 15F11910 00 00 00 E5 0B 1D FF FF")
print("YD   '00:01:54.430 R ...'   ->", yd.timestamp)
if yd.timestamp.year == 1900:
    print("     (clean tree: the time of day sits on 1900-01-01)")
else:
    print("     (changed tree: the time of day sits on the current date)")

for token in ("A000057.055", "A173321.107"):
    m = dec.decode_actisense_string(token + " 09FF7 0FF00 3F9FDCFFFFFFFFFF")
    print(f"ACT  '{token} ...'    ->", m.timestamp)
far = (m.timestamp - datetime.now()).total_seconds() > 86400
print("     (clean tree: now + 173321 s, i.e. two days ahead)" if far else
      "     (changed tree: 17:33:21.107 on the current date)")

# what the property talks about is untouched
def key(msg):
    return (msg.PGN, msg.source, msg.destination, msg.priority, [(f.id, f.value) for f in msg.fields])

src = dec.decode_tcp(bytes.fromhex("8800ff00093f9fdcffffffffff"))
line = enc.encode_yacht_devices(src)[0]
assert line.endswith(b"\r\n") and line.count(b"\n") == 1
back_yd = dec.decode_yacht_devices_string("12:00:00.000 R " + line.decode())
back_act = dec.decode_actisense_string("A120000.000 " + enc.encode_actisense(src))
assert key(back_yd) == key(src) and key(back_act) == key(src)
print("round trip (PGN, addressing, priority, field values) identical for YD and Actisense: OK")
