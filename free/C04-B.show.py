"""show_B: what does the decoder tell about frames it had to drop during fast-packet reassembly?

One stream (PGN 129029, source 0, destination 255) carries three messages with the same payload and
the sequence counters 0, 1, 2.
  message 0: all frames arrive, one of them twice           -> returned once
  message 1: frame 3 is lost                                -> never returned
  message 2: all frames arrive (reordered)                  -> returned intact
plus stray duplicates of frames of finished messages.
The returned messages are the same on both trees.  The difference:
  clean tree  : nothing is reported above DEBUG level and the decoder has no counters
  changed tree: one WARNING per abandoned message, and decoder.fast_packet_stats counts what happened
"""
import logging
import sys
from nmea2000.decoder import NMEA2000Decoder

PAYLOAD = [  # wire bytes after the frame header, 47 payload bytes + 1 padding byte
    "2f,e7,95,3d,00,73,d6", "29,00,da,04,73,db,c9", "e5,05,80,7d,02,28,5f", "d6,10,f6,9b,50,6c,05",
    "00,00,00,00,13,fc,08", "6f,00,be,00,dd,f2,ff", "ff,00,ff,ff,ff,ff,ff",
]

def frame(seq, idx):
    return "2022-09-28-11:36:59.668,3,129029,0,255,8,%02x,%s" % ((seq << 5) | idx, PAYLOAD[idx])

records = []
class Keep(logging.Handler):
    def emit(self, record):
        records.append(record)
logging.getLogger("nmea2000").addHandler(Keep(logging.WARNING))
logging.getLogger("nmea2000").propagate = False

history = (
    [(0, i) for i in (0, 1, 2, 2, 3, 4, 5, 6)] + [(0, 4)]            # message 0 with a duplicate, then a stray duplicate
    + [(1, i) for i in (0, 1, 2, 4, 5, 6)]                           # message 1 without frame 3
    + [(2, 0), (1, 5)] + [(2, i) for i in (6, 5, 4, 3, 2, 1)]         # message 2 reordered, a stray frame of message 1 inside
    + [(2, 1), (2, 6)]                                               # stray duplicates after completion
)
dec = NMEA2000Decoder()
returned = []
for n, (seq, idx) in enumerate(history):
    msg = dec.decode_basic_string(frame(seq, idx))
    if msg is not None:
        returned.append((n, seq, [f.value for f in msg.fields[:4]]))
for r in returned:
    print("returned at arrival %d: message with sequence counter %d, fields %s" % r)
assert [r[1] for r in returned] == [0, 2], returned      # same on both trees

print("WARNING-level log records: %d" % len(records))
for r in records:
    print("   ", r.levelname, r.getMessage())
stats = getattr(dec, "fast_packet_stats", None)
print("decoder.fast_packet_stats =", stats)
if stats is None and not records:
    print("BEHAVIOUR: losses are silent (DEBUG only), no counters")
else:
    print("BEHAVIOUR: abandoned messages are reported at WARNING level and counted")
sys.exit(0)
