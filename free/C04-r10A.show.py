"""show_A: a truncated fast-packet frame (fewer data bytes than its position in the message requires).

Clean tree  : the short frame is stored as it is, every byte behind it is shifted, and the message is
              "completed" by the byte count with a payload nobody sent (or it raises while decoding it);
              the intact copy of the frame that arrives later is too late.
Changed tree: the short frame is dropped like a lost frame (WARNING), and the intact copy of that frame
              completes the message with exactly the payload that was sent.
Exits 0 on both trees.
"""
import logging
from nmea2000.decoder import NMEA2000Decoder

logging.basicConfig(level=logging.WARNING, format="    log %(levelname)s %(message)s")

TS = "2022-09-28-11:36:59.668"
HEAD = TS + ",3,129029,0,255,"
# GNSS Position Data, 43 bytes, 7 frames, sequence counter 0 (tests/recombine-frames.in)
FRAMES = [
    "00,2f,e7,95,3d,00,73,d6",
    "01,29,00,da,04,73,db,c9",
    "02,e5,05,80,7d,02,28,5f",
    "03,d6,10,f6,9b,50,6c,05",
    "04,00,00,00,00,13,fc,08",
    "05,6f,00,be,00,dd,f2,ff",
    "06,ff,00,ff,ff,ff,ff,ff",
]


def line(frame: str, keep: int = 8) -> str:
    parts = frame.split(",")[:keep]
    return HEAD + f"{len(parts)}," + ",".join(parts)


RAISED = []


def feed(decoder, text, label):
    try:
        msg = decoder.decode_basic_string(text)
    except Exception as e:  # the clean tree may fail while decoding a shifted payload
        print(f"  {label:<34} -> raised {type(e).__name__}: {e}   (a shifted payload was assembled and handed to the PGN decoder)")
        RAISED.append(label)
        return None
    if msg is None:
        print(f"  {label:<34} -> None")
    else:
        lat = msg.fields[3].value
        lon = msg.fields[4].value
        print(f"  {label:<34} -> MESSAGE PGN {msg.PGN} latitude={lat} longitude={lon}")
    return msg


def main():
    print("reference: all 7 intact frames")
    d = NMEA2000Decoder()
    ref = None
    for i, f in enumerate(FRAMES):
        ref = feed(d, line(f), f"frame {i}")
    ref_lat = ref.fields[3].value

    for keep in (7, 5):
        print()
        print(f"frame 1 arrives truncated to {keep} of 8 bytes ({keep - 1} payload bytes instead of 7), its intact copy arrives last")
        d = NMEA2000Decoder()
        got = []
        del RAISED[:]
        got.append(feed(d, line(FRAMES[0]), "frame 0"))
        got.append(feed(d, line(FRAMES[1], keep=keep), f"frame 1 TRUNCATED ({keep} of 8 bytes)"))
        for i in range(2, 7):
            got.append(feed(d, line(FRAMES[i]), f"frame {i}"))
        got.append(feed(d, line(FRAMES[1]), "frame 1 intact copy"))
        msgs = [m for m in got if m is not None]
        good = [m for m in msgs if m.fields[3].value == ref_lat]
        bad = [m for m in msgs if m.fields[3].value != ref_lat]
        if good and not bad and got[-1] is not None:
            print("  RESULT: truncated frame dropped; the intact copy completed the message with the payload that was sent")
        else:
            print("  RESULT: truncated frame was used; %d shifted payload(s) assembled (%d returned as a message, %d failed to decode), "
                  "the sent payload was returned %d time(s)" % (len(bad) + len(RAISED), len(bad), len(RAISED), len(good)))


if __name__ == "__main__":
    main()
