"""show_A: what does `await client.send(msg)` evaluate to?

Clean tree : always None.
Change A   : the number of packets handed to the link (0 for an unencodable message,
             the number written before the failure when a write fails).
The bytes on the link, the state and the reconnection are printed too: they are the same on both trees.
Exits 0 on both trees.
"""
import asyncio
import logging

from nmea2000.decoder import NMEA2000Decoder
from nmea2000.ioclient import EByteNmea2000Gateway, ActisenseNmea2000Gateway, State
from nmea2000.message import NMEA2000Message, NMEA2000Field

logging.disable(logging.CRITICAL)


class FakeWriter:
    def __init__(self, fail_at=None):
        self.writes = []
        self.fail_at = fail_at          # index of the write() call that raises
        self.closed = False

    def write(self, data):
        if self.fail_at is not None and len(self.writes) == self.fail_at:
            raise ConnectionResetError("injected write failure")
        self.writes.append(bytes(data))

    async def drain(self):
        await asyncio.sleep(0)

    def close(self):
        self.closed = True

    def get_extra_info(self, name, default=None):
        return default


class FakeReader:
    async def readexactly(self, n):
        await asyncio.Event().wait()

    async def readline(self):
        await asyncio.Event().wait()


def make_client(cls, fail_at=None):
    class Client(cls):
        connects = 0

        async def _connect_impl(self):
            Client.connects += 1
            self.reader, self.writer = FakeReader(), FakeWriter()

    client = Client("127.0.0.1", 1)
    client.seed_network_map = False
    client.reader, client.writer = FakeReader(), FakeWriter(fail_at)
    client._state = State.CONNECTED
    return client, Client


def single_frame():
    return NMEA2000Message(PGN=127250, priority=2, source=1, destination=255, fields=[
        NMEA2000Field(id="sid", raw_value=0), NMEA2000Field(id="heading", value=1),
        NMEA2000Field(id="deviation", raw_value=0), NMEA2000Field(id="variation", raw_value=0),
        NMEA2000Field(id="reference", raw_value=0), NMEA2000Field(id="reserved_58", raw_value=0)])


def multi_frame():
    msg = NMEA2000Decoder().decode_actisense_string(
        "A000057.063 09FF7 1FF1A 3F9F24000000FFFFFFFFEFFFFFFF009AFFFFFFADFFFFFF050000000000")
    assert msg is not None
    return msg


async def main():
    states = []

    async def on_status(state):
        states.append(state.name)

    print("case                          send() returned   packets on link   state         reconnects")
    cases = [
        ("single-frame message", EByteNmea2000Gateway, single_frame(), None),
        ("multi-frame message", EByteNmea2000Gateway, multi_frame(), None),
        ("missing field", EByteNmea2000Gateway, NMEA2000Message(PGN=127250, priority=2, source=1, destination=255), None),
        ("unknown PGN", EByteNmea2000Gateway, NMEA2000Message(PGN=1234, priority=2, source=1, destination=255), None),
        ("format without encoder", ActisenseNmea2000Gateway, single_frame(), None),
        ("write fails at packet 3", EByteNmea2000Gateway, multi_frame(), 2),
    ]
    for title, cls, msg, fail_at in cases:
        client, klass = make_client(cls, fail_at)
        client.set_status_callback(on_status)
        first_writer = client.writer
        del states[:]
        result = await client.send(msg)
        state_after = client.state.name
        await asyncio.sleep(0.05)       # let a reconnection, if any, run
        print(f"{title:<30}{result!r:<18}{len(first_writer.writes):<18}{state_after:<14}{klass.connects}"
              f"   status callbacks: {states}")
        await client.close()


asyncio.run(main())
