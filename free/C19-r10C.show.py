"""show_C: send() on the Actisense (N2K ASCII) client.

Clean tree : the Actisense client is the one "format without an encoder": every send() logs a warning and
             writes nothing, whatever the message.
Change C   : the Actisense client has an encoder (one N2K ASCII line per message, fast-packet messages
             included), so send() writes exactly that line; bad messages still write nothing and leave the
             state alone; a failing write still gives DISCONNECTED + a reconnection.
The other three client types are untouched (EByte printed as a control).
Exits 0 on both trees.
"""
import asyncio
import logging

from nmea2000.decoder import NMEA2000Decoder
from nmea2000.ioclient import EByteNmea2000Gateway, ActisenseNmea2000Gateway, State
from nmea2000.message import NMEA2000Message, NMEA2000Field

logging.disable(logging.CRITICAL)


class FakeWriter:
    def __init__(self, fail_at=None):
        self.writes = []
        self.fail_at = fail_at          # index of the write() call that raises
        self.closed = False

    def write(self, data):
        if self.fail_at is not None and len(self.writes) == self.fail_at:
            raise ConnectionResetError("injected write failure")
        self.writes.append(bytes(data))

    async def drain(self):
        await asyncio.sleep(0)

    def close(self):
        self.closed = True

    def get_extra_info(self, name, default=None):
        return default


class FakeReader:
    async def readexactly(self, n):
        await asyncio.Event().wait()

    async def readline(self):
        await asyncio.Event().wait()


def make_client(cls, fail_at=None):
    class Client(cls):
        connects = 0

        async def _connect_impl(self):
            Client.connects += 1
            self.reader, self.writer = FakeReader(), FakeWriter()

    client = Client("127.0.0.1", 1)
    client.seed_network_map = False
    client.reader, client.writer = FakeReader(), FakeWriter(fail_at)
    client._state = State.CONNECTED
    return client, Client


def single_frame():
    return NMEA2000Message(PGN=127250, priority=2, source=1, destination=255, fields=[
        NMEA2000Field(id="sid", raw_value=0), NMEA2000Field(id="heading", value=1),
        NMEA2000Field(id="deviation", raw_value=0), NMEA2000Field(id="variation", raw_value=0),
        NMEA2000Field(id="reference", raw_value=0), NMEA2000Field(id="reserved_58", raw_value=0)])


def multi_frame():
    msg = NMEA2000Decoder().decode_actisense_string(
        "A000057.063 09FF7 1FF1A 3F9F24000000FFFFFFFFEFFFFFFF009AFFFFFFADFFFFFF050000000000")
    assert msg is not None
    return msg


async def main():
    states = []

    async def on_status(state):
        states.append(state.name)

    decoder = NMEA2000Decoder()
    cases = [
        ("control: EByte, single-frame", EByteNmea2000Gateway, single_frame(), None),
        ("Actisense, single-frame", ActisenseNmea2000Gateway, single_frame(), None),
        ("Actisense, fast-packet message", ActisenseNmea2000Gateway, multi_frame(), None),
        ("Actisense, missing field", ActisenseNmea2000Gateway,
         NMEA2000Message(PGN=127250, priority=2, source=1, destination=255), None),
        ("Actisense, unknown PGN", ActisenseNmea2000Gateway,
         NMEA2000Message(PGN=1234, priority=2, source=1, destination=255), None),
        ("Actisense, priority 9", ActisenseNmea2000Gateway, single_frame(), None),
        ("Actisense, write fails", ActisenseNmea2000Gateway, single_frame(), 0),
    ]
    cases[5][2].priority = 9
    for title, cls, msg, fail_at in cases:
        client, klass = make_client(cls, fail_at)
        client.set_status_callback(on_status)
        first_writer = client.writer
        del states[:]
        await client.send(msg)
        state_after = client.state.name
        await asyncio.sleep(0.05)       # let a reconnection, if any, run
        print(f"{title:<32} state after send: {state_after:<13} reconnects: {klass.connects}  "
              f"status callbacks: {states}")
        for packet in first_writer.writes:
            print(f"        written: {packet!r}")
            if cls is ActisenseNmea2000Gateway:
                back = decoder.decode_actisense_string(packet.decode().strip())
                print(f"        decodes back to PGN {back.PGN} src {back.source} dest {back.destination} "
                      f"prio {back.priority}, first fields: {[(f.id, f.value) for f in back.fields][:3]}")
        if not first_writer.writes:
            print("        written: nothing")
        await client.close()

    # two concurrent send() calls on the Actisense client
    client, klass = make_client(ActisenseNmea2000Gateway)
    await asyncio.gather(client.send(multi_frame()), client.send(single_frame()))
    print("two concurrent send() calls on the Actisense client wrote:")
    for packet in client.writer.writes:
        print(f"        {packet!r}")
    if not client.writer.writes:
        print("        nothing")
    await client.close()


asyncio.run(main())
