"""Change C: the text (Yacht Devices / Actisense) receive path does not decode a line cut by the end of the stream.

Feeds the concatenation of the encoder's Yacht Devices packets (each one CR/LF-terminated line) for
three messages into the reader of a YachtDevicesNmea2000Gateway, followed by the beginning of a
fourth packet that is cut in the middle (no CR/LF) and EOF. Prints what is delivered. The three
complete packets give the same three messages on both trees; only the fate of the cut fragment
differs. Exits 0 on the clean and on the changed tree.
"""
import asyncio
import logging
from nmea2000.decoder import NMEA2000Decoder
from nmea2000.encoder import NMEA2000Encoder
from nmea2000.ioclient import YachtDevicesNmea2000Gateway

logging.disable(logging.CRITICAL)

def key(msg):
    return (msg.PGN, msg.source, msg.destination, msg.priority, [(f.id, f.value) for f in msg.fields])

async def main():
    dec, enc = NMEA2000Decoder(), NMEA2000Encoder()
    heading = dec.decode_tcp(bytes.fromhex("8800ff00093f9fdcffffffffff"))
    fast = dec.decode_actisense_string(
        "A000057.063 09FF7 1FF1A 3F9F24000000FFFFFFFFEFFFFFFF009AFFFFFFADFFFFFF050000000000")
    sent = [heading, fast, heading]
    packets = [p for m in sent for p in enc.encode_yacht_devices(m)]
    assert all(p.endswith(b"\r\n") and p.count(b"\n") == 1 for p in packets)
    # the receive side sees the gateway's form of a line: time and direction in front
    lines = [b"12:00:00.000 R " + p for p in packets]
    cut = lines[0][:-11]                 # a fourth line, cut after 5 of its 8 data bytes, no CR/LF
    print(f"{len(sent)} messages -> {len(lines)} CR/LF-terminated lines, then the cut line {cut!r}, then EOF")

    client = YachtDevicesNmea2000Gateway("127.0.0.1", 1)   # never connected: the reader is fed by hand
    got = []
    async def on_message(m):
        got.append(m)
    client.set_receive_callback(on_message)
    reader = asyncio.StreamReader()
    client.reader = reader
    reader.feed_data(b"".join(lines) + cut)
    reader.feed_eof()

    end = None
    for _ in range(len(lines) + 3):
        try:
            await client._receive_impl()
            await client.queue.join()
        except Exception as e:
            end = e
            break
    assert end is not None
    print(f"delivered {len(got)} message(s); end of stream reported as {type(end).__name__}: {end}")
    assert [key(m) for m in got[:3]] == [key(m) for m in sent], "messages of the complete lines differ"
    print("  the 3 complete lines gave the 3 messages that were sent, in order: OK")
    for extra in got[3:]:
        print("  EXTRA message decoded from the cut line:",
              extra.PGN, {f.id: f.value for f in extra.fields})
        print("  (the message that line was going to carry:",
              heading.PGN, {f.id: f.value for f in heading.fields}, ")")
    if not got[3:]:
        print("  nothing was decoded from the cut line")
    await client.close()

asyncio.run(main())
