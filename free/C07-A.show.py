"""show_A: which calendar date does a Yacht Devices line get?

Prints the timestamp attached to a message decoded from a Yacht Devices RAW line
(the line only carries a time of day) and checks that the decoded content is still
identical to the same CAN frame carried by the four other formats.
Exits 0 on both the clean and the changed tree.
"""
from datetime import datetime

from nmea2000.decoder import NMEA2000Decoder
from nmea2000.utils import calculate_canbus_checksum

CAN_ID = 0x09F8011C          # prio 2, PGN 129025 (Position, Rapid Update), src 0x1C
DATA = bytes.fromhex("7fa3cd1809e4d6b2")


def content(msg):
    return (msg.PGN, msg.id, msg.description, msg.source, msg.destination, msg.priority,
            [(f.id, f.value, f.raw_value) for f in msg.fields])


def usb_packet(can_id, data):
    body = bytes([0xAA, 0x55, 0x01, 0x02, 0x01]) + can_id.to_bytes(4, "little") + bytes([len(data)]) + data + bytes(8 - len(data)) + b"\x00"
    packet = body + b"\x00"
    return body + bytes([calculate_canbus_checksum(packet)])


prio, pgn, src, dst = 2, 129025, 0x1C, 255
hexs = [f"{b:02X}" for b in DATA]
inputs = {
    "ebyte": lambda d: d.decode_tcp(bytes([0x80 | len(DATA)]) + CAN_ID.to_bytes(4, "big") + DATA),
    "usb": lambda d: d.decode_usb(usb_packet(CAN_ID, DATA)),
    "yacht_devices": lambda d: d.decode_yacht_devices_string("17:33:21.107 R %08X %s" % (CAN_ID, " ".join(hexs))),
    "actisense": lambda d: d.decode_actisense_string("A173321.107 %02X%02X%X %05X %s" % (src, dst, prio, pgn, DATA.hex().upper())),
    "canboat": lambda d: d.decode_basic_string("2024-11-17-17:33:21.107,%d,%d,%d,%d,%d,%s" % (prio, pgn, src, dst, len(DATA), ",".join(hexs).lower())),
}

results = {}
for name, fn in inputs.items():
    msg = fn(NMEA2000Decoder())
    assert msg is not None, name
    results[name] = msg
    print(f"{name:14s} timestamp={msg.timestamp.isoformat()}  lat/lon={msg.fields[0].value:.6f},{msg.fields[1].value:.6f}")

same = all(content(m) == content(results["ebyte"]) for m in results.values())
print("decoded content identical through all five formats:", same)

yd = results["yacht_devices"].timestamp
print("Yacht Devices message date:", yd.date().isoformat(),
      "(today)" if yd.date() == datetime.now().date() else "(placeholder date, not today)")
print("Yacht Devices time of day :", yd.time().isoformat())
