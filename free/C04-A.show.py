"""show_A: which reception time does a reassembled fast-packet message carry?

Feeds the seven frames of one PGN 129029 message (taken from tests/recombine-frames-1.in), each
with its own reception time 10 ms after the previous one, the continuation frames in a shuffled
order, and prints the timestamp of the returned message.
  clean tree  : timestamp of the frame that completed the message (the last one to arrive)
  changed tree: timestamp of the first frame (start of the transmission)
The decoded fields are printed too: they are the same on both trees.
"""
import sys
from nmea2000.decoder import NMEA2000Decoder

FRAMES = [
    "00,2f,e7,95,3d,00,73,d6",
    "01,29,00,da,04,73,db,c9",
    "02,e5,05,80,7d,02,28,5f",
    "03,d6,10,f6,9b,50,6c,05",
    "04,00,00,00,00,13,fc,08",
    "05,6f,00,be,00,dd,f2,ff",
    "06,ff,00,ff,ff,ff,ff,ff",
]
ORDER = [0, 3, 1, 6, 2, 5, 4]          # first frame first, the others reordered

dec = NMEA2000Decoder()
out = []
stamps = []
for n, idx in enumerate(ORDER):
    stamp = "2022-09-28-11:36:59.%03d" % (600 + 10 * n)
    stamps.append(stamp)
    msg = dec.decode_basic_string("%s,3,129029,0,255,8,%s" % (stamp, FRAMES[idx]))
    out.append(msg)
    print("arrival %d: frame %d at %s -> %s" % (n, idx, stamp, "MESSAGE" if msg is not None else None))

assert all(m is None for m in out[:-1]) and out[-1] is not None
msg = out[-1]
ts = msg.timestamp.strftime("%Y-%m-%d-%H:%M:%S.%f")[:-3]
print("fields (first 6):", [f.value for f in msg.fields[:6]])
print("message.timestamp =", ts)
if ts == stamps[0]:
    print("BEHAVIOUR: message carries the reception time of its FIRST frame")
elif ts == stamps[-1]:
    print("BEHAVIOUR: message carries the reception time of the frame that COMPLETED it")
else:
    print("BEHAVIOUR: message carries some other time")
sys.exit(0)
