"""show_A: which fast-packet sequence counter does the encoder put on the wire?

Encodes messages of two different fast-packet streams alternately with ONE encoder and prints the
3-bit sequence counter of every message (top 3 bits of the first data byte of every frame), for the
EByte, Waveshare-USB and Yacht Devices formats. Then checks that everything still round-trips.
Exits 0 on the clean and on the changed tree; only the printed counters differ.
"""
import copy
import sys

from nmea2000.decoder import NMEA2000Decoder
from nmea2000.encoder import NMEA2000Encoder

GNSS_FRAMES = """2022-09-28-11:36:59.668,3,129029,0,255,8,00,2f,e7,95,3d,00,73,d6
2022-09-28-11:36:59.668,3,129029,0,255,8,01,29,00,da,04,73,db,c9
2022-09-28-11:36:59.668,3,129029,0,255,8,02,e5,05,80,7d,02,28,5f
2022-09-28-11:36:59.668,3,129029,0,255,8,03,d6,10,f6,9b,50,6c,05
2022-09-28-11:36:59.668,3,129029,0,255,8,04,00,00,00,00,13,fc,08
2022-09-28-11:36:59.668,3,129029,0,255,8,05,6f,00,be,00,dd,f2,ff
2022-09-28-11:36:59.668,3,129029,0,255,8,06,ff,00,ff,ff,ff,ff,ff""".splitlines()


def sample_messages():
    d = NMEA2000Decoder()
    ais = d.decode_actisense_string(
        "A000057.063 09FF7 1FF1A 3F9F24000000FFFFFFFFEFFFFFFF009AFFFFFFADFFFFFF050000000000")
    gnss = None
    for line in GNSS_FRAMES:
        gnss = d.decode_basic_string(line) or gnss
    assert ais is not None and gnss is not None
    ais_other_src = copy.deepcopy(ais)
    ais_other_src.source = 42
    return ais, gnss, ais_other_src


def values(msg):
    return (msg.PGN, msg.source, msg.destination, msg.priority,
            [(f.id, f.value, f.raw_value) for f in msg.fields])


def seq_ebyte(packets):
    return sorted({p[5] >> 5 for p in packets})


def seq_usb(packets):
    return sorted({p[10] >> 5 for p in packets})


def seq_yd(packets):
    return sorted({int(p.decode().split()[1], 16) >> 5 for p in packets})


def main():
    ais, gnss, ais42 = sample_messages()
    plan = [("130842 src=%d" % ais.source, ais), ("129029 src=%d" % gnss.source, gnss),
            ("130842 src=%d" % ais.source, ais), ("129029 src=%d" % gnss.source, gnss),
            ("130842 src=42", ais42), ("130842 src=%d" % ais.source, ais)]
    ok = True
    for fmt, encode_name, seq_of, feed in (
            ("ebyte", "encode_ebyte", seq_ebyte, lambda d, p: d.decode_tcp(p)),
            ("usb", "encode_usb", seq_usb, lambda d, p: d.decode_usb(p)),
            ("yacht_devices", "encode_yacht_devices", seq_yd,
             lambda d, p: d.decode_yacht_devices_string("12:00:00.000 R " + p.decode())),
    ):
        enc = NMEA2000Encoder()
        dec = NMEA2000Decoder()
        print(f"[{fmt}] sequence counters of consecutive fast-packet messages from one encoder:")
        for label, msg in plan:
            packets = getattr(enc, encode_name)(msg)
            seqs = seq_of(packets)
            got = None
            for p in packets:
                got = feed(dec, p) or got
            same = got is not None and values(got) == values(msg)
            ok = ok and same and len(seqs) == 1
            print(f"    {label:<16} frames={len(packets)} sequence={seqs} round-trip={'ok' if same else 'FAILED'}")
    print("all round-trips ok" if ok else "ROUND-TRIP PROBLEM")
    return 0 if ok else 1


if __name__ == "__main__":
    sys.exit(main())
