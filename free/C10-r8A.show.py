"""Change A: an id-filter verdict is remembered per single-id PGN; later traffic of that PGN is dropped up front.

Feeds a decoder built with include_pgns=["windData"] (ids only, so on the clean tree every PGN is reassembled and
decoded before the id filter can look at it) with GNSS fast-packet traffic (PGN 129029, id gnssPositionData) and
prints what happened inside the decoder: how often the PGN's decode function was called, what sits in the
fast-packet buffers, and what was returned. Returned results are the same on both trees.
"""
import logging

import nmea2000.decoder as dec_mod
from nmea2000.decoder import NMEA2000Decoder

logging.basicConfig(level=logging.INFO, format="    log[%(levelname)s] %(message)s")
logging.getLogger("nmea2000.decoder").setLevel(logging.INFO)

GNSS = [ln.strip() for ln in open("tests/recombine-frames-1.in") if ",129029," in ln]
WIND = "A000057.067 22FF2 1FD02 075101744CFAFFFF"

calls = {"n": 0}
orig = dec_mod.decode_pgn_129029


def counting(data):
    calls["n"] += 1
    return orig(data)


dec_mod.decode_pgn_129029 = counting   # _call_decode_function looks the function up in the module globals

d = NMEA2000Decoder(include_pgns=["WINDdata"])
print("tree has verdict memo:", hasattr(d, "id_filtered_pgns"))

results = []
print("1) first complete GNSS message (7 frames), filtered out by id:")
for ln in GNSS:
    results.append(d.decode_basic_string(ln))
print("   returned:", results, " decode calls so far:", calls["n"])
print("   remembered verdicts:", sorted(getattr(d, "id_filtered_pgns", [])))

print("2) three more complete GNSS messages and then 3 frames of an unfinished one:")
for _ in range(3):
    for ln in GNSS:
        results.append(d.decode_basic_string(ln))
for ln in GNSS[:3]:
    results.append(d.decode_basic_string(ln))
print("   all returned None:", all(r is None for r in results), " decode calls so far:", calls["n"])
print("   fast-packet buffers held for filtered traffic:", {k: len(v.frames) for k, v in d.data.items()})

print("3) permitted traffic is untouched:")
m = d.decode_actisense_string(WIND)
print("   wind message returned:", m is not None and m.id)
