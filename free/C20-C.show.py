"""show_C: WHEN are the packets of one read handed to the receive callback?
One read delivers 5 valid packets (100 bytes). A trace records every decoder call and every callback.
Clean tree: all 5 packets are decoded first, the callbacks run afterwards (queue holds 5 when
_receive_impl returns). Changed tree (C): decode and callback alternate, packet by packet.
What is delivered, and in which order, is the same."""
import asyncio, logging, sys
logging.disable(logging.CRITICAL)
from nmea2000.ioclient import WaveShareNmea2000Gateway
from nmea2000.utils import calculate_canbus_checksum

BASE = bytearray.fromhex("aa550102010900ff1c083f9fdcffffffffff00e5")

def pkt(tag):
    p = bytearray(BASE)
    p[17] = tag
    p[19] = calculate_canbus_checksum(p)
    assert b"\xaa\x55" not in p[2:]
    return bytes(p)

class Reader:
    def __init__(self, segs):
        self.segs = list(segs)
    async def read(self, n):
        return self.segs.pop(0) if self.segs else b""

async def main():
    c = WaveShareNmea2000Gateway("/dev/null")
    await asyncio.sleep(0)          # let the client's queue task start
    trace, got = [], []
    async def cb(m):
        tag = m.fields[-1].raw_value >> 8
        got.append(tag)
        trace.append(f"callback{tag}")
    c.set_receive_callback(cb)
    orig = c.decoder.decode_usb
    def spy(packet):
        trace.append(f"decode{packet[17]}")
        return orig(packet)
    c.decoder.decode_usb = spy
    c._buffer = bytearray()
    noise = b"\x00\x11\xaa"
    c.reader = Reader([b"".join(pkt(t) for t in range(1, 6)), noise + pkt(6) + b"\xaa\x55\x01"])
    await c._receive_impl()
    trace.append(f"[read 1 done, queue holds {c.queue.qsize()}, buffer holds {len(c._buffer)}]")
    await c._receive_impl()
    trace.append(f"[read 2 done, queue holds {c.queue.qsize()}, buffer holds {len(c._buffer)}]")
    await asyncio.sleep(0.01)
    await c.close()
    print(" ".join(trace))
    assert got == [1, 2, 3, 4, 5, 6]
    interleaved = trace.index("callback1") < trace.index("decode2")
    print("callbacks run", "between the packets of a read (changed tree C)" if interleaved
          else "after the whole read has been parsed (clean tree)")

asyncio.run(main())
sys.exit(0)
