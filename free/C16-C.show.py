"""show_C: sequence counters the encoder puts on fast-packet messages of different PGNs.

One encoder sends Distance Log (128275), then Heading/Track Control (127237), then Distance Log
again, then a second encoder sends Distance Log.  Prints the sequence counter (top 3 bits of the first
data byte) of every message, and shows that decoders - one shared by everything, one per message, a
brand-new one - return the same for each message, whatever the encoders did before.
Exits 0 on both trees.
"""
import logging
from nmea2000.decoder import NMEA2000Decoder
from nmea2000.encoder import NMEA2000Encoder

logging.disable(logging.CRITICAL)


def summary(msg):
    return None if msg is None else (msg.PGN, msg.id, msg.source, msg.destination, msg.priority,
                                     [(f.id, f.value, f.raw_value) for f in msg.fields])


def fast_frames(pgn, payload, seq):
    fid = NMEA2000Encoder._build_header(pgn, 7, 255, 6).to_bytes(4, "big")
    chunks = [bytes([(seq << 5) | 0, len(payload)]) + payload[:6]]
    rest, i = payload[6:], 1
    while rest:
        chunks.append(bytes([(seq << 5) | i]) + rest[:7])
        rest, i = rest[7:], i + 1
    return [bytes([0x80 | len(c)]) + fid + c + bytes(8 - len(c)) for c in chunks]


def decode_all(decoder, packets):
    out = None
    for p in packets:
        out = decoder.decode_tcp(p)
    return out


# two messages to encode: obtained by decoding hand-made frames
seed = NMEA2000Decoder()
distance_log = decode_all(seed, fast_frames(128275, bytes(range(1, 15)), 0))
track = decode_all(seed, fast_frames(127237, bytes(range(1, 22)), 0))
assert distance_log is not None and track is not None

enc1, enc2 = NMEA2000Encoder(), NMEA2000Encoder()
shared = NMEA2000Decoder()
sent = [("enc1", enc1, distance_log), ("enc1", enc1, track), ("enc1", enc1, distance_log),
        ("enc2", enc2, distance_log), ("enc1", enc1, track)]
all_same = True
for name, enc, msg in sent:
    packets = enc.encode_ebyte(msg)
    seq = packets[0][5] >> 5
    a = summary(decode_all(shared, packets))
    b = summary(decode_all(NMEA2000Decoder(), packets))
    same = a == b and a is not None
    all_same &= same
    print(f"{name} sends PGN {msg.PGN}: {len(packets)} frames, sequence counter {seq}; "
          f"shared decoder == new decoder: {same}")
print("every message decoded identically on the shared and on a new decoder:", all_same)
