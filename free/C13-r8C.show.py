"""show_C: how a burst of frames is interleaved with the rest of the application.

The gateway writes 1500 frames in one go and then closes.  We look at (a) how many decoded frames
are already queued when the receive callback sees the first one, (b) how often an independent
`await asyncio.sleep(0)` ticker task got the loop between the first and the last delivered frame,
(c) the longest time the ticker was kept waiting, (d) that all frames arrive before DISCONNECTED.
Exits 0 on both trees; only the printed numbers differ.
"""
import asyncio
import logging
import time

from nmea2000.ioclient import YachtDevicesNmea2000Gateway

logging.disable(logging.CRITICAL)
LINE = b"00:01:54.430 R 15F11910 00 00 00 E5 0B 1D FF FF\r\n"
N = 1500


async def main():
    peers = []
    accepted = asyncio.Event()

    async def on_client(reader, writer):
        peers.append(writer)
        accepted.set()

    server = await asyncio.start_server(on_client, "127.0.0.1", 0)
    port = server.sockets[0].getsockname()[1]
    client = YachtDevicesNmea2000Gateway("127.0.0.1", port)
    events, depth_at_first, t_first, t_last = [], [], [], []

    async def on_status(s):
        events.append(s.name)

    async def on_frame(m):
        if not depth_at_first:
            depth_at_first.append(client.queue.qsize())
            t_first.append(ticks[0])
        events.append("frame")
        t_last[:] = [ticks[0]]

    ticks, worst = [0], [0.0]
    stop = False

    async def ticker():
        last = time.perf_counter()
        while not stop:
            await asyncio.sleep(0)
            now = time.perf_counter()
            worst[0] = max(worst[0], now - last)
            last = now
            ticks[0] += 1

    client.set_status_callback(on_status)
    client.set_receive_callback(on_frame)
    await client.connect()
    await accepted.wait()
    server.close()                       # no reconnection: keeps the picture simple
    tick_task = asyncio.create_task(ticker())
    await asyncio.sleep(0.05)
    worst[0] = 0.0
    peers[0].write(LINE * N)
    await peers[0].drain()
    peers[0].close()
    for _ in range(400):
        await asyncio.sleep(0.025)
        if "DISCONNECTED" in events:
            break
    stop = True
    await tick_task
    n_frames = events.count("frame")
    idx = events.index("DISCONNECTED") if "DISCONNECTED" in events else len(events)
    print(f"frames delivered                                   : {n_frames} of {N}")
    print(f"frames delivered before DISCONNECTED was reported  : {events[:idx].count('frame')}")
    print(f"decoded frames waiting in the queue at 1st callback: {depth_at_first[0]}")
    print(f"ticker turns between first and last delivered frame: {t_last[0] - t_first[0]}")
    print(f"longest time the ticker task was kept waiting      : {worst[0] * 1000:.1f} ms")
    await client.close()


asyncio.run(main())
