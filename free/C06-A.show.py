"""show_A: what the encoder puts in the unused data bytes and which data length a fast-packet frame declares.

Prints the packets of (1) a short single-frame message (ISO Request, 3 data bytes) and (2) a fast-packet
message whose last frame is short (PGN 130842, 29 byte payload) for the three frame based formats, then decodes them again. Exits 0 on both trees.
"""
import logging

from nmea2000.decoder import NMEA2000Decoder
from nmea2000.encoder import NMEA2000Encoder
from nmea2000.utils import calculate_canbus_checksum

logging.disable(logging.CRITICAL)


def fields(m):
    return [(f.id, f.value) for f in m.fields]


d = NMEA2000Decoder()
short = d.decode_basic_string("2012-06-17-15:02:11.000,6,59904,0,255,3,14,f0,01")
fast = d.decode_actisense_string(
    "A000057.063 09FF7 1FF1A 3F9F24000000FFFFFFFFEFFFFFFF009AFFFFFFADFFFFFF050000000000")

for title, msg in (("single frame, 3 data bytes (PGN 59904)", short),
                   ("fast packet, 29 byte payload -> last frame carries 2 payload bytes (PGN 130842)", fast)):
    print("==", title)
    enc = NMEA2000Encoder()
    eb = enc.encode_ebyte(msg)
    enc = NMEA2000Encoder()
    usb = enc.encode_usb(msg)
    enc = NMEA2000Encoder()
    yd = enc.encode_yacht_devices(msg)
    for p in eb:
        print("  ebyte", p.hex(), "len", len(p), "declared data length", p[0] & 0x0F)
    for p in usb:
        print("  usb  ", p.hex(), "len", len(p), "declared data length", p[9],
              "checksum ok", calculate_canbus_checksum(p) == p[19])
    for p in yd:
        print("  yd   ", repr(p.decode()), "data bytes on the line", len(p.split()) - 1)
    # the round trip is the same on both trees
    for name, pkts, fn in (("ebyte", eb, lambda dd, p: dd.decode_tcp(p)),
                           ("usb", usb, lambda dd, p: dd.decode_usb(p)),
                           ("yd", yd, lambda dd, p: dd.decode_yacht_devices_string("00:00:01.000 R " + p.decode()))):
        dd = NMEA2000Decoder()
        out = None
        for p in pkts:
            out = fn(dd, p)
        same = (out.PGN, out.source, out.destination, out.priority, fields(out)) == \
               (msg.PGN, msg.source, msg.destination, msg.priority, fields(msg))
        print("  round trip", name, "-> same PGN/addressing/priority/fields:", same)

last = NMEA2000Encoder().encode_ebyte(fast)[-1]
print("fill byte after the last payload byte of the last fast-packet frame: 0x%02X" % last[-1])
print("fill byte of the short single frame (ebyte): 0x%02X" % NMEA2000Encoder().encode_ebyte(short)[0][-1])
