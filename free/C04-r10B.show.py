"""show_B: an ISO Address Claim with a DIFFERENT NAME arrives for a source address while a fast-packet
message from that address is half reassembled (another device has taken the address over).

Clean tree  : the half message of the previous owner stays in the buffer and the frames sent from that address
              after the take-over complete it: one message built from frames of two different devices.
Changed tree: the partial messages of that source address are discarded at the take-over; the left-over frames are
              ignored; the next message on the stream (new sequence counter) is returned intact on both trees.
A repeated claim with the SAME NAME changes nothing on either tree (shown first).
Exits 0 on both trees.
"""
import logging
from nmea2000.decoder import NMEA2000Decoder

logging.basicConfig(level=logging.INFO, format="    log %(levelname)s %(message)s")
logging.getLogger().handlers[0].addFilter(lambda r: "ISO_CLAIM" in r.getMessage() or "owner" in r.getMessage())

TS = "2022-09-28-11:36:59.668"
HEAD = TS + ",3,129029,0,255,8,"
FRAMES = [
    "00,2f,e7,95,3d,00,73,d6",
    "01,29,00,da,04,73,db,c9",
    "02,e5,05,80,7d,02,28,5f",
    "03,d6,10,f6,9b,50,6c,05",
    "04,00,00,00,00,13,fc,08",
    "05,6f,00,be,00,dd,f2,ff",
    "06,ff,00,ff,ff,ff,ff,ff",
]
CLAIM_DEVICE_1 = "2022-09-10T12:10:16.614Z,6,60928,0,255,8,fb,9b,70,22,00,9b,50,c0"
CLAIM_DEVICE_2 = "2022-09-10T12:10:16.614Z,6,60928,0,255,8,11,22,73,22,00,9b,50,c0"  # other unique number: other NAME


def with_seq(frame: str, seq: int) -> str:
    parts = frame.split(",")
    parts[0] = f"{(seq << 5) | int(parts[0], 16):02x}"
    return ",".join(parts)


def feed(decoder, text, label):
    msg = decoder.decode_basic_string(text)
    if msg is None:
        print(f"  {label:<46} -> None")
    elif msg.PGN == 60928:
        print(f"  {label:<46} -> address claim, unique number {msg.fields[0].value}")
    else:
        print(f"  {label:<46} -> MESSAGE PGN {msg.PGN} latitude={msg.fields[3].value}")
    return msg


def scenario(second_claim, title):
    print(title)
    d = NMEA2000Decoder()
    feed(d, CLAIM_DEVICE_1, "address claim of device 1 for address 0")
    for i in range(0, 4):
        feed(d, HEAD + FRAMES[i], f"seq 0 frame {i}")
    feed(d, second_claim, "address claim for address 0 again")
    results = []
    for i in range(4, 7):
        results.append(feed(d, HEAD + FRAMES[i], f"seq 0 frame {i}"))
    nxt = None
    for i in range(0, 7):
        nxt = feed(d, HEAD + with_seq(FRAMES[i], 1), f"seq 1 frame {i}")
    print(f"  => message straddling the claim returned: {any(r is not None for r in results)};"
          f" next message returned intact: {nxt is not None}")
    print()
    return nxt


def main():
    a = scenario(CLAIM_DEVICE_1, "1) the SAME device repeats its claim in the middle of a message")
    b = scenario(CLAIM_DEVICE_2, "2) ANOTHER device (other NAME) claims the address in the middle of a message")
    assert a is not None and b is not None  # the next complete message is returned on both trees


if __name__ == "__main__":
    main()
