"""show_B: a gateway that accepts the connection and then says nothing at all.

The program sets client.idle_timeout = 0.6 (on the clean tree this is just an unused attribute, on
the changed tree it is the watchdog period, default 90 s) and watches a silent gateway for 2.5 s, then
a talkative one (a frame every 0.3 s) for 2 s.  Exits 0 on both trees; only the printed facts differ.
"""
import asyncio
import logging

from nmea2000 import ioclient
from nmea2000.ioclient import YachtDevicesNmea2000Gateway

logging.disable(logging.CRITICAL)
LINE = b"00:01:54.430 R 15F11910 00 00 00 E5 0B 1D FF FF\r\n"


async def scenario(talkative):
    peers, hangups = [], []

    async def on_client(reader, writer):
        idx = len(peers)
        peers.append(writer)
        while await reader.read(1000):
            pass
        hangups.append(idx)          # the client hung up connection number idx

    server = await asyncio.start_server(on_client, "127.0.0.1", 0)
    port = server.sockets[0].getsockname()[1]
    client = YachtDevicesNmea2000Gateway("127.0.0.1", port)
    default = getattr(client, "idle_timeout", "n/a (no such attribute)")
    client.idle_timeout = 0.6
    states, frames = [], []

    async def on_status(s):
        states.append(s.name)

    async def on_frame(m):
        frames.append(m.PGN)

    client.set_status_callback(on_status)
    client.set_receive_callback(on_frame)
    await client.connect()
    if talkative:
        for _ in range(7):
            await asyncio.sleep(0.3)
            peers[-1].write(LINE)
    else:
        await asyncio.sleep(2.5)
    observed = list(states)
    n_conn, n_hang = len(peers), len(hangups)
    # whatever happened, the client must still be usable: a frame on the newest connection arrives
    await asyncio.sleep(0.05) if client.state.name == "CONNECTED" else await asyncio.sleep(0.7)
    before = len(frames)
    peers[-1].write(LINE)
    await asyncio.sleep(0.2)
    print(f"  gateway {'talks every 0.3 s' if talkative else 'silent for 2.5 s  '}: default idle_timeout={default}")
    print(f"    status callbacks            : {observed}")
    print(f"    connections the gateway got : {n_conn}   hang-ups by the client: {n_hang}")
    print(f"    frame sent afterwards delivered: {len(frames) - before == 1}   state={client.state.name}")
    await client.close()
    server.close()
    for w in peers:
        w.close()


async def main():
    print("DEFAULT_IDLE_TIMEOUT in the library:", getattr(ioclient, "DEFAULT_IDLE_TIMEOUT", "n/a"))
    await scenario(talkative=False)
    await scenario(talkative=True)


asyncio.run(main())
