"""show_A: how to_json() writes the descriptive enum attributes of a field (type, physical_quantities).
Clean tree: by auto() value ("type":[4], "physical_quantities":[10]).  Changed tree: by name ("LOOKUP", "DISTANCE").
The PGN, id, addressing, field ids, values, raw values and the re-encoded bytes are the same on both trees."""
import inspect
import json
from nmea2000.decoder import NMEA2000Decoder
from nmea2000.encoder import NMEA2000Encoder
from nmea2000.message import NMEA2000Message

dec = NMEA2000Decoder()
msg = dec.decode_actisense_string("A000057.055 09FF7 0FF00 3F9FDCFFFFFFFFFF")
text = msg.to_json()
data = json.loads(text)                      # valid JSON on both trees
print("JSON rendering of the descriptive enum attributes:")
for f in data["fields"]:
    print("  %-18s type=%-12r physical_quantities=%r" % (f["id"], f["type"], f["physical_quantities"]))
by_name = isinstance(data["fields"][0]["type"], str)
print("BEHAVIOUR:", "enum members written by NAME" if by_name else "enum members written by auto() VALUE")

if "enum_names" in inspect.signature(NMEA2000Message.to_json).parameters:
    legacy = json.loads(msg.to_json(enum_names=False))
    print("to_json(enum_names=False) ->", [f["type"] for f in legacy["fields"]])

# what the property talks about is identical on both trees
back = NMEA2000Message.from_json(text)
same = (back.PGN, back.id, back.source, back.destination, back.priority) == (msg.PGN, msg.id, msg.source, msg.destination, msg.priority)
same = same and [(f.id, f.value, f.raw_value) for f in back.fields] == [(f.id, f.value, f.raw_value) for f in msg.fields]
enc = NMEA2000Encoder()
print("round trip keeps PGN/id/addressing/field id,value,raw_value:", same)
print("re-encoded:", enc.encode_actisense(back), "| original:", enc.encode_actisense(msg))
assert same and enc.encode_actisense(back) == enc.encode_actisense(msg)
