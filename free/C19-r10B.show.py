"""show_B: messages whose HEADER attributes (priority / source / destination / PGN) are malformed.

These are inputs the property does not speak about on the clean tree: there a non-integer header attribute
escapes from the encoder as a TypeError, which send() takes for a lost connection (DISCONNECTED + reconnect),
and a destination above 255 is silently folded into the PGN bits of the CAN id (a frame for another PGN goes out).
Change B : the encoder checks type and range of all four header attributes and raises ValueError, so
           send() treats such a message like any other bad message: nothing written, state untouched.
Well-formed messages are encoded byte for byte as before (printed as a control).
Exits 0 on both trees.
"""
import asyncio
import logging

from nmea2000.decoder import NMEA2000Decoder
from nmea2000.ioclient import EByteNmea2000Gateway, ActisenseNmea2000Gateway, State
from nmea2000.message import NMEA2000Message, NMEA2000Field

logging.disable(logging.CRITICAL)


class FakeWriter:
    def __init__(self, fail_at=None):
        self.writes = []
        self.fail_at = fail_at          # index of the write() call that raises
        self.closed = False

    def write(self, data):
        if self.fail_at is not None and len(self.writes) == self.fail_at:
            raise ConnectionResetError("injected write failure")
        self.writes.append(bytes(data))

    async def drain(self):
        await asyncio.sleep(0)

    def close(self):
        self.closed = True

    def get_extra_info(self, name, default=None):
        return default


class FakeReader:
    async def readexactly(self, n):
        await asyncio.Event().wait()

    async def readline(self):
        await asyncio.Event().wait()


def make_client(cls, fail_at=None):
    class Client(cls):
        connects = 0

        async def _connect_impl(self):
            Client.connects += 1
            self.reader, self.writer = FakeReader(), FakeWriter()

    client = Client("127.0.0.1", 1)
    client.seed_network_map = False
    client.reader, client.writer = FakeReader(), FakeWriter(fail_at)
    client._state = State.CONNECTED
    return client, Client




def iso_request(**kw):
    msg = NMEA2000Message(PGN=59904, id="isoRequest", priority=6, source=0, destination=255,
                          fields=[NMEA2000Field(id="pgn", value=60928, raw_value=60928)])
    for k, v in kw.items():
        setattr(msg, k, v)
    return msg


def heading(**kw):
    msg = NMEA2000Message(PGN=127250, priority=2, source=1, destination=255, fields=[
        NMEA2000Field(id="sid", raw_value=0), NMEA2000Field(id="heading", value=1),
        NMEA2000Field(id="deviation", raw_value=0), NMEA2000Field(id="variation", raw_value=0),
        NMEA2000Field(id="reference", raw_value=0), NMEA2000Field(id="reserved_58", raw_value=0)])
    for k, v in kw.items():
        setattr(msg, k, v)
    return msg


def describe(packet):
    """PGN / destination a receiver reads from the CAN id of an EByte packet."""
    can_id = int.from_bytes(packet[1:5], "big")
    pf = (can_id >> 16) & 0xFF
    pgn = (can_id >> 8) & 0x3FFFF
    if pf < 0xF0:
        return f"PGN {pgn & 0x3FF00} to {pgn & 0xFF}"
    return f"PGN {pgn} broadcast"


async def main():
    states = []

    async def on_status(state):
        states.append(state.name)

    cases = [
        ("control: ISO request to 255", iso_request()),
        ("control: heading", heading()),
        ("control: priority=9 (range)", heading(priority=9)),
        ("priority=None", heading(priority=None)),
        ("source='1' (a string)", heading(source="1")),
        ("destination=None, addressed PGN", iso_request(destination=None)),
        ("priority=2.0 (a float)", heading(priority=2.0)),
        ("destination=300, addressed PGN", iso_request(destination=300)),
        ("destination=-1, addressed PGN", iso_request(destination=-1)),
    ]
    for title, msg in cases:
        client, klass = make_client(EByteNmea2000Gateway)
        client.set_status_callback(on_status)
        first_writer = client.writer
        del states[:]
        await client.send(msg)
        state_after = client.state.name
        await asyncio.sleep(0.05)       # let a reconnection, if any, run
        wire = [f"{p.hex()} ({describe(p)})" for p in first_writer.writes]
        print(f"{title:<34} state after send: {state_after:<13} reconnects: {klass.connects}  "
              f"status callbacks: {states}  written: {wire}")
        await client.close()


asyncio.run(main())
