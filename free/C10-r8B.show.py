"""Change B: a first fast-packet frame with the current sequence counter but different bytes starts a new message.

History: GNSS message #1 (SID 231) loses its 4th frame; GNSS message #2 (SID 232) follows complete, from a sender
that does not advance the sequence counter. The same history is given to an unfiltered decoder and to two filtered
ones. What the UNFILTERED decoder returns differs between the trees (clean: a chimera of #1 and #2 at frame 4 of #2;
changed: message #2 at its last frame); on both trees the filtered decoders return exactly the permitted part of it.
"""
import logging

from nmea2000.decoder import NMEA2000Decoder

logging.disable(logging.CRITICAL)

GNSS = [ln.strip() for ln in open("tests/recombine-frames-1.in") if ",129029," in ln]
WIND = "A000057.067 22FF2 1FD02 075101744CFAFFFF"


def sid(frames, value):
    out = list(frames)
    p = out[0].split(",")
    p[8] = "%02x" % value          # first payload byte of the first frame = SID
    out[0] = ",".join(p)
    return out


msg1 = sid(GNSS, 231)
msg2 = sid(GNSS, 232)
history = [("b", f) for i, f in enumerate(msg1) if i != 3] + [("a", WIND)] + [("b", f) for f in msg2]


def run(**kw):
    d = NMEA2000Decoder(**kw)
    out = []
    for fmt, s in history:
        m = d.decode_basic_string(s) if fmt == "b" else d.decode_actisense_string(s)
        out.append(None if m is None else (m.id, m.fields[0].value, m.fields[13].value if m.PGN == 129029 else None))
    return out


plain = run()
only_gnss = run(include_pgns=["GNSSpositionDATA"])
no_gnss = run(exclude_pgns=[129029])

print("position: unfiltered | include gnssPositionData | exclude 129029      (id, SID, geoidal separation)")
for i, (a, b, c) in enumerate(zip(plain, only_gnss, no_gnss)):
    print(f"  {i:2d}: {a} | {b} | {c}")

ok1 = only_gnss == [x if x and x[0] == "gnssPositionData" else None for x in plain]
ok2 = no_gnss == [x if x and x[0] != "gnssPositionData" else None for x in plain]
print("filtered == permitted selection of unfiltered:", ok1 and ok2)
gnss = [(i, x) for i, x in enumerate(plain) if x and x[0] == "gnssPositionData"]
print("GNSS message(s) returned by the unfiltered decoder (position, content):", gnss)
print("behaviour:", "message #2 delivered intact at its last frame" if gnss and gnss[0][0] == len(history) - 1
      else "chimera of #1 and #2 delivered early, #2 itself lost")
