"""show_B: how long after losing an established connection does the client dial again?

Real sockets, real time.  For each of the four client types:
  1. the gateway accepts, the client is CONNECTED;
  2. the gateway goes away (EOF on the connection, listener closed) - or, for the last run, the
     gateway stays but a write fails on the client side;
  3. the next two connection attempts are refused, then the gateway listens again;
  4. the gateway sends a frame, the client delivers it.
Printed: time from the DISCONNECTED report to every following connection attempt.
Exits 0 on the clean and on the changed tree.
"""
import asyncio
import logging
import socket
import sys
import time

import serial_asyncio
from nmea2000.ioclient import (ActisenseNmea2000Gateway, EByteNmea2000Gateway, State,
                               WaveShareNmea2000Gateway, YachtDevicesNmea2000Gateway)
from nmea2000.message import NMEA2000Message

logging.disable(logging.CRITICAL)

FRAMES = {
    "EByte": bytes.fromhex("8815f11910000000e50b1dffff"),
    "Actisense": b"A000057.055 09FF7 0FF00 3F9FDCFFFFFFFFFF\n",
    "YachtDevices": b"00:01:54.430 R 15F11910 00 00 00 E5 0B 1D FF FF\r\n",
    "WaveShare": bytes.fromhex("aa550102011019f11508000000e50b1dffff0046"),
}
ISO_REQUEST = '{"PGN":59904,"id":"isoRequest","description":"ISO Request","fields":[{"id":"pgn","name":"PGN","description":null,"unit_of_measurement":null,"value":60928,"raw_value":60928,"physical_quantities":null,"type":[13],"part_of_primary_key":false}],"source":0,"destination":255,"priority":6,"timestamp":"2012-06-17T15:02:11","source_iso_name":null,"hash":null}'


def free_port():
    s = socket.socket()
    s.bind(("127.0.0.1", 0))
    port = s.getsockname()[1]
    s.close()
    return port


async def run(kind, fault):
    port = free_port()
    peers = []
    attempts = []                 # time of every connection attempt made by the client
    refuse = 0                    # number of attempts still to be refused

    async def on_peer(reader, writer):
        peers.append(writer)

    real_open = asyncio.open_connection

    async def counting_open(host, p, **kw):
        nonlocal refuse
        attempts.append(time.monotonic())
        if refuse > 0:
            refuse -= 1
            raise ConnectionRefusedError(111, "gateway is away")
        return await real_open(host, p, **kw)

    async def fake_serial(*a, **kw):
        return await counting_open("127.0.0.1", port)

    reports = []                  # (time, state) of every status report
    got = asyncio.Event()

    async def on_status(state):
        reports.append((time.monotonic(), state.name))

    async def on_message(msg):
        got.set()

    asyncio.open_connection = counting_open
    real_serial = serial_asyncio.open_serial_connection
    serial_asyncio.open_serial_connection = fake_serial
    server = await asyncio.start_server(on_peer, "127.0.0.1", port)
    try:
        client = {"EByte": lambda: EByteNmea2000Gateway("127.0.0.1", port),
                  "Actisense": lambda: ActisenseNmea2000Gateway("127.0.0.1", port),
                  "YachtDevices": lambda: YachtDevicesNmea2000Gateway("127.0.0.1", port),
                  "WaveShare": lambda: WaveShareNmea2000Gateway("/dev/ttyFAKE")}[kind]()
        client.set_status_callback(on_status)
        client.set_receive_callback(on_message)
        await client.connect()
        while not peers:
            await asyncio.sleep(0.01)
        assert client.state == State.CONNECTED
        await asyncio.sleep(0.1)
        del attempts[:]
        refuse = 2

        # ---- the fault
        if fault == "EOF":
            peers.pop().close()
        else:                                     # error on write
            def broken_write(data):
                raise ConnectionResetError(104, "Connection reset by peer")
            client.writer.write = broken_write
            peers.pop()
            await client.send(NMEA2000Message.from_json(ISO_REQUEST))

        # ---- wait for the client to come back, then let the gateway talk
        for _ in range(1000):
            if client.state == State.CONNECTED and peers:
                break
            await asyncio.sleep(0.01)
        assert client.state == State.CONNECTED, client.state
        peers[0].write(FRAMES[kind])
        await asyncio.wait_for(got.wait(), 5)
        await client.close()
    finally:
        asyncio.open_connection = real_open
        serial_asyncio.open_serial_connection = real_serial
        server.close()

    t_disc = [t for t, s in reports if s == "DISCONNECTED"][0]
    offsets = [t - t_disc for t in attempts]
    gaps = [offsets[0]] + [b - a for a, b in zip(offsets, offsets[1:])]
    print(f"{kind:13s} fault={fault:14s} reports={[s for _, s in reports]}")
    print(f"{'':13s} DISCONNECTED -> 1st attempt: {gaps[0]:5.2f} s    then between attempts: "
          + ", ".join(f"{g:.2f} s" for g in gaps[1:]) + "    frame delivered after reconnect: yes")
    assert [s for _, s in reports] == ["CONNECTED", "DISCONNECTED", "CONNECTED", "CLOSED"]
    assert all(g > 0.05 for g in gaps[1:]) and gaps[1:] == sorted(gaps[1:])
    return gaps


async def main():
    first = []
    for kind in ("EByte", "Actisense", "YachtDevices", "WaveShare"):
        first.append((await run(kind, "EOF"))[0])
    first.append((await run("YachtDevices", "error on write"))[0])
    print()
    if max(first) < 0.1:
        print("=> the client dials again in the same instant in which it noticed the loss of the connection")
    else:
        print(f"=> the client waits about {min(first):.2f} s after the loss of the connection before it dials again")


asyncio.run(main())
sys.exit(0)
