"""show_A: what close() does with a link whose gateway has stopped reading.

A TCP "gateway" accepts the client and then never reads. The application keeps sending until the
socket buffers are full and send() blocks. Then close() is called.

Prints how long close() took, whether the socket was really closed when close() returned and
3 s later, and whether the blocked send() was released. Exits 0 on every tree.
"""
import asyncio
import logging
import socket
import time

from nmea2000.ioclient import EByteNmea2000Gateway, State
from nmea2000.message import NMEA2000Message

logging.basicConfig(level=logging.WARNING, format="   log: %(levelname)s %(message)s")

ISO_REQUEST = '{"PGN":59904,"id":"isoRequest","description":"ISO Request","fields":[{"id":"pgn","name":"PGN","description":null,"unit_of_measurement":null,"value":60928,"raw_value":60928,"physical_quantities":null,"type":[13],"part_of_primary_key":false}],"source":0,"destination":255,"priority":6,"timestamp":"2012-06-17T15:02:11","source_iso_name":null,"hash":null}'


async def main():
    gateway_side = []
    release = asyncio.Event()

    async def stalled_gateway(reader, writer):
        gateway_side.append(writer)          # keep the connection, never read from it
        await release.wait()

    lsock = socket.socket()
    lsock.setsockopt(socket.SOL_SOCKET, socket.SO_REUSEADDR, 1)
    lsock.setsockopt(socket.SOL_SOCKET, socket.SO_RCVBUF, 4096)   # small buffers: the stall shows quickly
    lsock.bind(("127.0.0.1", 0))
    server = await asyncio.start_server(stalled_gateway, sock=lsock)
    port = lsock.getsockname()[1]

    states = []

    async def on_status(state):
        states.append(state.name)

    client = EByteNmea2000Gateway("127.0.0.1", port)
    client.set_status_callback(on_status)
    await client.connect()
    sock = client.writer.get_extra_info("socket")
    sock.setsockopt(socket.SOL_SOCKET, socket.SO_SNDBUF, 4096)

    msg = NMEA2000Message.from_json(ISO_REQUEST)
    sent = 0

    async def flood():
        nonlocal sent
        while client.state != State.CLOSED:
            await client.send(msg)
            sent += 1

    flooder = asyncio.create_task(flood())
    await asyncio.sleep(1.0)
    before = sent
    await asyncio.sleep(0.3)
    print(f"send() calls completed: {sent}; a send() is blocked on the stalled gateway: {sent == before and not flooder.done()}")
    print(f"bytes still buffered in the client for the gateway: {client.writer.transport.get_write_buffer_size()}")

    t0 = time.monotonic()
    await client.close()
    took = time.monotonic() - t0
    print(f"close() returned after {took:.2f} s, state = {client.state.name}")
    print(f"  socket closed when close() returned : {sock.fileno() == -1}")
    print(f"  blocked send() released             : {flooder.done()}")
    await asyncio.sleep(3.0)
    print("3 s later (the gateway still has not read a byte):")
    print(f"  socket closed                       : {sock.fileno() == -1}")
    print(f"  blocked send() released             : {flooder.done()}")
    print(f"  state = {client.state.name}, status notifications = {states}")

    # tidy up whatever the tree under test has left open
    flooder.cancel()
    client.writer.transport.abort()
    for w in gateway_side:
        w.transport.abort()
    release.set()
    server.close()
    await asyncio.sleep(0.05)


asyncio.run(main())
