"""show_A: a single-frame PGN carried in a CAN frame with fewer than 8 data bytes (DLC < 8).

Clean tree : the missing trailing bytes read as zero  -> deviation = 0.0, variation = 0.0, reference = 'True'
Changed    : the missing trailing bytes read as 0xFF   -> deviation = -0.0001 (raw 0xFFFF), reference = None, reserved = 63
             i.e. exactly what the same frame gives when the device sends the 0xFF filler itself
On both trees all five input formats give the same message (that is the property C07).
"""
import logging
from nmea2000.decoder import NMEA2000Decoder

logging.disable(logging.CRITICAL)


def can_id(pgn, src, dest, prio):
    pf = (pgn >> 8) & 0xFF
    ps = dest if pf < 0xF0 else pgn & 0xFF
    return (prio << 26) | (((pgn >> 16) & 3) << 24) | (pf << 16) | (ps << 8) | src


def ebyte(cid, data):
    return bytes([0x80 | len(data)]) + cid.to_bytes(4, "big") + data + bytes(8 - len(data))


def usb(cid, data):
    p = bytes([0xAA, 0x55, 0x01, 0x02, 0x01]) + cid.to_bytes(4, "little") + bytes([len(data)]) + data + bytes(8 - len(data)) + b"\x00"
    return p + bytes([sum(p[2:19]) & 0xFF])


def yd(cid, data, marker="R"):
    return "12:34:56.789 %s %08X %s" % (marker, cid, " ".join("%02X" % b for b in data))


def actisense(pgn, src, dest, prio, data):
    return "A000001.000 %05X %05X %s" % ((src << 12) | (dest << 4) | prio, pgn, data.hex().upper())


def plain(pgn, src, dest, prio, data):
    return "2024-01-01T00:00:00.000Z,%d,%d,%d,%d,%d,%s" % (prio, pgn, src, dest, len(data), ",".join("%02x" % b for b in data))


def summary(msg):
    if msg is None:
        return None
    return (msg.PGN, msg.id, msg.source, msg.destination, msg.priority,
            tuple((f.id, f.value, f.raw_value) for f in msg.fields))


PGN, SRC, DEST, PRIO = 127250, 35, 255, 2      # Vessel Heading, single frame
DATA = bytes([0x07, 0x10, 0x27])               # only sid + heading: DLC = 3, trailing filler dropped
cid = can_id(PGN, SRC, DEST, PRIO)

results = {
    "ebyte": NMEA2000Decoder().decode_tcp(ebyte(cid, DATA)),
    "usb": NMEA2000Decoder().decode_usb(usb(cid, DATA)),
    "yacht devices": NMEA2000Decoder().decode_yacht_devices_string(yd(cid, DATA)),
    "actisense": NMEA2000Decoder().decode_actisense_string(actisense(PGN, SRC, DEST, PRIO, DATA)),
    "plain": NMEA2000Decoder().decode_basic_string(plain(PGN, SRC, DEST, PRIO, DATA)),
}
for name, msg in results.items():
    print("%-14s %s" % (name, [(f.id, f.value) for f in msg.fields]))

summaries = {summary(m) for m in results.values()}
print("all five formats identical (property C07):", len(summaries) == 1)

msg = results["ebyte"]
ref = msg.get_field_by_id("reference").value
res = msg.get_field_by_id("reserved_58").value
print("BEHAVIOUR: 3-byte Vessel Heading frame: reference = %r, reserved = %r ->" % (ref, res),
      "missing bytes read as 0xFF / not available (changed tree)" if ref is None else "missing bytes read as zero (clean tree)")
padded = NMEA2000Decoder().decode_tcp(ebyte(cid, DATA + b"\xff" * 5))
print("same as the frame with explicit 0xFF filler:", summary(padded) == summary(msg))

# a full 8-byte frame is not touched by the change
full = NMEA2000Decoder().decode_tcp(ebyte(cid, bytes([0x07, 0x10, 0x27, 0x05, 0x00, 0x0A, 0x00, 0xFD])))
print("full 8-byte frame (same on both trees):", [(f.id, f.value) for f in full.fields])
