"""Change A: Yacht Devices RAW lines in the application-to-gateway form (no time, no direction).

Prints what the decoder does with the line produced by the library's own encode_yacht_devices()
and with the same CAN frame in the gateway-to-application form. Exits 0 on both trees.
"""
from nmea2000.decoder import NMEA2000Decoder
from nmea2000.encoder import NMEA2000Encoder


def summary(msg):
    if msg is None:
        return None
    return (msg.PGN, msg.id, msg.source, msg.destination, msg.priority,
            [(f.id, f.value, f.raw_value) for f in msg.fields])


def attempt(label, func, line):
    try:
        msg = func(line)
        print(f"{label}: decoded -> {summary(msg)}")
        return summary(msg)
    except Exception as e:  # noqa: BLE001
        print(f"{label}: raised {type(e).__name__}: {e}")
        return "raised"


decoder = NMEA2000Decoder()
received_form = "21:31:42.671 R 01F010B3 FF FF 0C 4F 70 BE 3E 33"
ref = decoder.decode_yacht_devices_string(received_form)
assert ref is not None
sent_form = NMEA2000Encoder().encode_yacht_devices(ref)[0].decode()
print("gateway->application line :", repr(received_form))
print("application->gateway line :", repr(sent_form))

a = attempt("received form (R)        ", decoder.decode_yacht_devices_string, received_form)
b = attempt("received form (T)        ", decoder.decode_yacht_devices_string, received_form.replace(" R ", " T "))
c = attempt("sent form (no time/dir)  ", decoder.decode_yacht_devices_string, sent_form)
d = attempt("sent form, lower-case hex", decoder.decode_yacht_devices_string, sent_form.lower())
attempt("still malformed (bad dir)", decoder.decode_yacht_devices_string, "21:31:42.671 X 01F010B3 FF FF")

assert a == b
if c == "raised":
    print("RESULT: application->gateway lines are rejected (clean tree behaviour)")
else:
    assert c == a and d == a, "sent form must decode to the same message as the received form"
    print("RESULT: application->gateway lines decode to the same message as the R/T lines (changed tree behaviour)")
