"""show_A: what happens to messages that arrive while no receive callback is registered.

Clean tree : they are taken out of the queue and thrown away.
Changed tree: they are kept (newest 1000) and handed to the callback, in wire order, once it is registered.
With a callback registered before the first byte arrives (second scenario) both trees behave the same.
"""
import asyncio
import logging

from nmea2000.ioclient import YachtDevicesNmea2000Gateway

logging.disable(logging.CRITICAL)


class DummyWriter:
    def write(self, data): pass
    async def drain(self): pass
    def close(self): pass


def line(sid: int) -> bytes:
    # PGN 127257 (Attitude), the first data byte is the SID
    return f"00:01:54.430 R 15F11910 {sid:02X} 00 00 E5 0B 1D FF FF\r\n".encode()


async def make_client():
    client = YachtDevicesNmea2000Gateway("127.0.0.1", 1)
    reader = asyncio.StreamReader()

    async def fake_connect():
        client.reader, client.writer = reader, DummyWriter()
    client._connect_impl = fake_connect
    return client, reader


async def scenario(register_first: bool):
    client, reader = await make_client()
    got = []

    async def cb(msg):
        got.append(msg.fields[0].value)

    if register_first:
        client.set_receive_callback(cb)
    await client.connect()
    for sid in range(3):
        reader.feed_data(line(sid))
    await asyncio.sleep(0.05)
    before = list(got)
    client.set_receive_callback(cb)
    for sid in range(3, 5):
        reader.feed_data(line(sid))
    await asyncio.sleep(0.05)
    await client.close()
    return before, got


async def main():
    before, got = await scenario(register_first=False)
    print("callback registered AFTER the first 3 messages arrived:")
    print("   delivered before registration:", before)
    print("   delivered in total (SIDs)    :", got)
    print("   ->", "early messages were KEPT for the callback" if got == [0, 1, 2, 3, 4]
          else "early messages were DROPPED" if got == [3, 4] else "unexpected")
    before, got = await scenario(register_first=True)
    print("callback registered before connecting (the situation the property talks about):")
    print("   delivered in total (SIDs)    :", got)
    assert got == [0, 1, 2, 3, 4]


asyncio.run(main())
