"""show_B: order of the last received frames and the DISCONNECTED notification.

The gateway sends a burst of 4 frames and hangs up at once; the application's receive callback
needs 50 ms per frame. The program prints the order in which the application sees the frames and
the status notifications, and how long after the hang-up DISCONNECTED was reported - once with that
50 ms callback and once with a callback that is stuck for 3 s on its first frame.
Exits 0 on both the clean and the changed tree.
"""
import asyncio
import logging
import sys
import time

from nmea2000.ioclient import YachtDevicesNmea2000Gateway, State

logging.getLogger("nmea2000").setLevel(logging.CRITICAL)


def line(sid: int) -> bytes:
    return f"00:01:54.430 R 15F11910 {sid:02X} 00 00 E5 0B 1D FF FF\r\n".encode()


async def scenario(callback_seconds_first: float, callback_seconds: float, title: str):
    events = []
    t_hangup = [None]
    t_disc = [None]
    first_connection = [True]

    async def on_client(reader, writer):
        if first_connection[0]:
            first_connection[0] = False
            writer.write(b"".join(line(i) for i in range(4)))
            await writer.drain()
            writer.close()                 # burst, then end of stream
            t_hangup[0] = time.monotonic()
        else:
            try:
                await reader.read()        # second connection: just stay up
            except Exception:
                pass
            writer.close()

    server = await asyncio.start_server(on_client, "127.0.0.1", 0)
    port = server.sockets[0].getsockname()[1]

    n = [0]

    async def on_message(message):
        sid = message.fields[0].value
        n[0] += 1
        await asyncio.sleep(callback_seconds_first if n[0] == 1 else callback_seconds)
        events.append(f"frame{sid}")

    async def on_status(state):
        events.append(state.name)
        if state == State.DISCONNECTED and t_disc[0] is None:
            t_disc[0] = time.monotonic()

    client = YachtDevicesNmea2000Gateway("127.0.0.1", port)
    client.set_receive_callback(on_message)
    client.set_status_callback(on_status)
    await client.connect()
    for _ in range(400):
        if events.count("CONNECTED") == 2 and sum(e.startswith("frame") for e in events) == 4:
            break
        await asyncio.sleep(0.01)
    print(title)
    print("   what the application saw, in order:", " ".join(events))
    if t_disc[0] is not None and t_hangup[0] is not None:
        print(f"   DISCONNECTED reported {max(0.0, t_disc[0] - t_hangup[0]):.2f} s after the gateway hung up")
    print(f"   final state: {client.state.name}; flush_timeout = {getattr(client, 'flush_timeout', '<no such attribute>')}")
    await client.close()
    server.close()
    await server.wait_closed()


async def main():
    await scenario(0.05, 0.05, "receive callback takes 50 ms per frame:")
    await scenario(3.0, 0.0, "receive callback stuck for 3 s on the first frame:")


if __name__ == "__main__":
    try:
        asyncio.run(main())
    except Exception as e:  # the show must not fail
        print("show_B: unexpected", type(e).__name__, e)
    sys.exit(0)
