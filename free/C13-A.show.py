"""show_A: print the schedule of delays between connection attempts while the gateway refuses.

For each of the four client types the gateway is unreachable for 9 attempts and then accepts.
The delays the client asks for between attempts are recorded (the waits themselves are shortened
so that the program finishes at once), then a frame is sent by the gateway to show that the
client is CONNECTED and delivers again.  Exits 0 on the clean and on the changed tree.
"""
import asyncio
import logging
import socket
import sys

import serial_asyncio
from nmea2000.ioclient import (ActisenseNmea2000Gateway, EByteNmea2000Gateway, State,
                               WaveShareNmea2000Gateway, YachtDevicesNmea2000Gateway)

logging.disable(logging.CRITICAL)

REFUSALS = 9
real_sleep = asyncio.sleep


def free_port():
    s = socket.socket()
    s.bind(("127.0.0.1", 0))
    port = s.getsockname()[1]
    s.close()
    return port


async def run(kind):
    port = free_port()
    delays = []          # delays asked for between attempts
    server = None
    peers = []

    async def on_peer(reader, writer):
        peers.append(writer)

    async def fast_sleep(delay, result=None):
        nonlocal server
        if delay >= 0.05:                      # a retry wait (close() and friends use 0.01)
            delays.append(delay)
            if len(delays) == REFUSALS:        # from now on the gateway accepts
                server = await asyncio.start_server(on_peer, "127.0.0.1", port)
            delay = 0
        return await real_sleep(delay, result)

    async def fake_serial(*a, **kw):           # the "serial port" is absent as long as the TCP port is closed
        return await asyncio.open_connection("127.0.0.1", port)

    states, got = [], asyncio.Event()

    async def on_status(state):
        states.append(state.name)

    async def on_message(msg):
        got.set()

    asyncio.sleep = fast_sleep
    real_serial = serial_asyncio.open_serial_connection
    serial_asyncio.open_serial_connection = fake_serial
    try:
        if kind == "EByte":
            client = EByteNmea2000Gateway("127.0.0.1", port)
            frame = bytes.fromhex("8815f11910000000e50b1dffff")
        elif kind == "Actisense":
            client = ActisenseNmea2000Gateway("127.0.0.1", port)
            frame = b"A000057.055 09FF7 0FF00 3F9FDCFFFFFFFFFF\n"
        elif kind == "YachtDevices":
            client = YachtDevicesNmea2000Gateway("127.0.0.1", port)
            frame = b"00:01:54.430 R 15F11910 00 00 00 E5 0B 1D FF FF\r\n"
        else:
            client = WaveShareNmea2000Gateway("/dev/ttyNONE")
            frame = bytes.fromhex("aa550102011019f11508000000e50b1dffff0046")
        client.set_status_callback(on_status)
        client.set_receive_callback(on_message)
        await asyncio.wait_for(client.connect(), 20)
        delivered = "no"
        if True:
            for _ in range(200):
                if peers:
                    break
                await real_sleep(0.01)
            peers[0].write(frame)
            await asyncio.wait_for(got.wait(), 5)
            delivered = "yes"
        state = client.state
        await client.close()
    finally:
        asyncio.sleep = real_sleep
        serial_asyncio.open_serial_connection = real_serial
        if server:
            server.close()
    print(f"{kind:13s} delays between attempts: {' '.join(f'{d:g}' for d in delays)}")
    print(f"{'':13s} status reports: {states}  state before close: {state.name}  frame delivered after reconnect: {delivered}")
    assert state == State.CONNECTED
    assert all(d > 0 for d in delays) and delays == sorted(delays) and delays[-1] == delays[-2], delays
    return delays


async def main():
    for kind in ("EByte", "Actisense", "YachtDevices", "WaveShare"):
        delays = await run(kind)
    print()
    print(f"first delay {delays[0]:g} s, cap {delays[-1]:g} s, total wait over {REFUSALS} refusals {sum(delays):g} s")
    print("every delay > 0, non-decreasing, strictly growing until the cap: "
          f"{all(b > a for a, b in zip(delays, delays[1:]) if b < delays[-1])}")


asyncio.run(main())
sys.exit(0)
