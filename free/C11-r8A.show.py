"""show_A: with a manufacturer filter configured but build_network_map OFF, is the traffic of a
source that has not claimed yet returned during the discovery window?"""
import logging
from datetime import timedelta
from nmea2000.decoder import NMEA2000Decoder

logging.disable(logging.CRITICAL)

CLAIM_NAVICO_5 = "2022-09-10T12:10:16.614Z,6,60928,5,255,8,fb,9b,70,22,00,9b,50,c0"
DATA_5 = "2021-01-30-20:43:21.684,6,126998,5,255,19,07,01,68,65,6C,6C,6F,0c,00,77,00,F3,00,72,00,6C,00,64,00"


def brief(msg):
    if msg is None:
        return "None"
    iso = msg.source_iso_name
    return f"PGN {msg.PGN} src {msg.source} manufacturer={iso.manufacturer_code if iso else None}"


def run(title, **kw):
    print(title)
    d = NMEA2000Decoder(**kw)
    print("   data before claim      ->", brief(d.decode_basic_string(DATA_5, True)))
    print("   claim (Navico)         ->", brief(d.decode_basic_string(CLAIM_NAVICO_5, True)))
    print("   data after claim       ->", brief(d.decode_basic_string(DATA_5, True)))
    d.close()


run("mapping off, exclude_manufacturer_code=['NAVICO']", exclude_manufacturer_code=["NAVICO"])
run("mapping off, include_manufacturer_code=['garmin']", include_manufacturer_code=["garmin"])
run("mapping off, include_manufacturer_code=['navico']", include_manufacturer_code=["navico"])
run("mapping off, no manufacturer filter (unchanged)")

print("mapping off, exclude ['navico'], decoder older than the discovery window, source never claims")
d = NMEA2000Decoder(exclude_manufacturer_code=["navico"])
d.started_at -= timedelta(minutes=11)
print("   data, no claim         ->", brief(d.decode_basic_string(DATA_5, True)))
d.close()
