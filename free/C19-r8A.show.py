"""show_A: which fast-packet sequence counter goes out on the wire for alternating PGNs.

Sends five multi-frame messages (PGN 127506, 128275, 127506, 128275, 127506) through an EByte
client whose link is a recording fake writer, and prints the 3-bit sequence counter found in the
packets of each message.  Also checks C19 itself: what is written is exactly what the client's
encoder returned for that message, in order, contiguously.
Exits 0 on the clean and on the changed tree.
"""
import asyncio
import inspect
import logging
import re

import nmea2000.pgns as P
from nmea2000.ioclient import EByteNmea2000Gateway, State
from nmea2000.message import NMEA2000Message, NMEA2000Field

logging.disable(logging.CRITICAL)


def mk(pgn, src=1):
    ids = re.findall(r'get_field_by_id\("(\w+)"\)', inspect.getsource(getattr(P, 'encode_pgn_%d' % pgn)))
    return NMEA2000Message(PGN=pgn, priority=6, source=src, destination=255,
                           fields=[NMEA2000Field(id=i, value=1, raw_value=1) for i in ids])


class FakeWriter:
    def __init__(self):
        self.written = []

    def write(self, data):
        self.written.append(bytes(data))

    async def drain(self):
        await asyncio.sleep(0)

    def close(self):
        pass

    def is_closing(self):
        return False

    def get_extra_info(self, name, default=None):
        return default


async def main():
    client = EByteNmea2000Gateway("127.0.0.1", 1)
    client.writer = FakeWriter()
    client._state = State.CONNECTED

    produced = []
    real_encode = client._encode_impl

    def spy(msg):
        packets = real_encode(msg)
        produced.append(list(packets))
        return packets
    client._encode_impl = spy

    order = [127506, 128275, 127506, 128275, 127506]
    for pgn in order:
        await client.send(mk(pgn))

    wire = client.writer.written
    flat = [p for packets in produced for p in packets]
    print("written == concatenation of what the encoder produced, message by message:", wire == flat)
    assert wire == flat

    counters = []
    for pgn, packets in zip(order, produced):
        # EByte packet: type byte, 4 id bytes, then the CAN data; data[0] = seq<<5 | frame
        seqs = {p[5] >> 5 for p in packets}
        frames = [p[5] & 0x1F for p in packets]
        assert len(seqs) == 1 and frames == list(range(len(packets)))
        counters.append(seqs.pop())
        print(f"PGN {pgn}: {len(packets)} packets, sequence counter on the wire = {counters[-1]}")
    print("sequence counters in send order:", counters)
    if counters == [0, 1, 2, 3, 4]:
        print("-> one counter shared by all PGNs (clean tree behaviour)")
    elif counters == [0, 0, 1, 1, 2]:
        print("-> one counter per (PGN, source, destination) stream (change A)")
    else:
        print("-> some other numbering")
    per_stream = {}
    for pgn, c in zip(order, counters):
        per_stream.setdefault(pgn, []).append(c)
    print("per PGN:", per_stream)
    print("state:", client.state)
    await client.close()


asyncio.run(main())
