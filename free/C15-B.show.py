"""show_B: Python types of the descriptive attributes of a message loaded with from_json.

Clean tree  : timestamp is text, ttl a float, source_iso_name a dict, field.type / physical_quantities lists.
Changed tree: datetime, timedelta, IsoName, FieldTypes / PhysicalQuantities members, as on a decoded message.
On both trees PGN, id, addressing and every field's id, value and raw value are the same as in the
original and the loaded message encodes to the same bytes.
"""
import json

from nmea2000.consts import PhysicalQuantities
from nmea2000.decoder import NMEA2000Decoder
from nmea2000.encoder import NMEA2000Encoder
from nmea2000.message import NMEA2000Message

decoder = NMEA2000Decoder()
encoder = NMEA2000Encoder()

# an address claim first, so that later messages from source 5 carry a source identity
claim = decoder.decode_basic_string("2022-09-10T12:10:16.614Z,6,60928,5,255,8,fb,9b,70,22,00,9b,50,c0")
assert claim is not None
# PGN 130312 Temperature from source 5 (temperature fields are kelvin with a physical quantity)
msg = decoder.decode_basic_string("2022-09-10T12:10:17.000Z,5,130312,5,255,8,01,00,01,b8,74,ff,ff,ff")
assert msg is not None and msg.source_iso_name is not None

text = msg.to_json()
json.loads(text)  # valid JSON
back = NMEA2000Message.from_json(text)

def kind(x):
    return type(x).__name__

print("attribute                     decoded message      loaded with from_json")
print("timestamp                     %-20s %s" % (kind(msg.timestamp), kind(back.timestamp)))
print("ttl                           %-20s %s" % (kind(msg.ttl), kind(back.ttl)))
print("source_iso_name               %-20s %s" % (kind(msg.source_iso_name), kind(back.source_iso_name)))
temp0, temp1 = msg.get_field_by_id("actualTemperature"), back.get_field_by_id("actualTemperature")
print("field.type                    %-20s %s" % (kind(temp0.type), kind(temp1.type)))
print("field.physical_quantities     %-20s %s" % (kind(temp0.physical_quantities), kind(temp1.physical_quantities)))
print("source_iso_name == original   :", back.source_iso_name == msg.source_iso_name)
print("timestamp == original         :", back.timestamp == msg.timestamp)

# what the property talks about is the same on both trees
assert (back.PGN, back.id, back.source, back.destination, back.priority) == \
    (msg.PGN, msg.id, msg.source, msg.destination, msg.priority)
assert len(back.fields) == len(msg.fields)
for f0, f1 in zip(msg.fields, back.fields):
    assert (f0.id, f0.value, f0.raw_value) == (f1.id, f1.value, f1.raw_value), (f0, f1)
assert encoder.encode_actisense(back) == encoder.encode_actisense(msg)
assert encoder.encode_ebyte(back) == encoder.encode_ebyte(msg)
print("PGN/id/addressing/field id, value, raw value identical; encodes to the same bytes:",
      encoder.encode_actisense(back))
print("to_json(from_json(text)) == text :", back.to_json() == text)

# a visible consequence: unit conversion of a loaded message
value_before = temp1.value
back.apply_preferred_units({PhysicalQuantities.TEMPERATURE: "c"})
print("apply_preferred_units on the loaded message: %r K -> %r %s" % (value_before, temp1.value, temp1.unit_of_measurement))
