"""show_B: with build_network_map=True, when does an unclaimed source stop being held back?

clean tree  : one global discovery window - 10 minutes after the decoder was created every unclaimed
              source is passed on (identity None), also a source that shows up for the first time then
changed tree: additionally every source gets its own 10 minute window counted from its first message
In both trees: nothing of an unclaimed source is returned during the first 10 minutes of the decoder,
and after a claim the messages carry exactly that identity.
The wall clock of nmea2000.decoder is replaced by a settable one.
"""
import logging
import datetime as _dt
import nmea2000.decoder as dec

logging.disable(logging.CRITICAL)


class Clock(_dt.datetime):
    current = _dt.datetime(2030, 1, 1, 0, 0, 0)

    @classmethod
    def now(cls, tz=None):
        return cls.current


dec.datetime = Clock
T0 = Clock.current


def at(minutes):
    Clock.current = T0 + _dt.timedelta(minutes=minutes)


def name64(unique, mfr, dev_class=25, function=130, inst=0, sys_inst=0, industry=4, aac=1):
    return (unique & 0x1FFFFF) | (mfr << 21) | ((inst & 0xFF) << 32) | (function << 40) | (dev_class << 49) \
        | (sys_inst << 56) | (industry << 60) | (aac << 63)


def claim(src, name):
    data = ",".join(f"{b:02x}" for b in name.to_bytes(8, "little"))
    return f"2022-09-10T12:10:16.614Z,6,60928,{src},255,8,{data}"


def data(src):  # PGN 127250 vessel heading, single frame
    return f"2022-09-10T12:10:17.000Z,2,127250,{src},255,8,00,10,27,ff,7f,ff,7f,fd"


def describe(msg):
    if msg is None:
        return "None"
    iso = msg.source_iso_name
    return f"PGN {msg.PGN} src={msg.source} identity=" + ("None" if iso is None else f"{iso.manufacturer_code}/{iso.unique_number}")


at(0)
d = dec.NMEA2000Decoder(build_network_map=True)
log = []


def step(minute, what, line):
    at(minute)
    r = d.decode_basic_string(line, True)
    log.append(r)
    print(f"t=+{minute:>4} min  {what:<34} -> {describe(r)}")
    return r


a = step(1, "data  from unclaimed src 10", data(10))
b = step(9.9, "data  from unclaimed src 10", data(10))
assert a is None and b is None                       # inside the decoder's discovery window: both trees
c = step(12, "data  from unclaimed src 10", data(10))
assert c is not None and c.source_iso_name is None   # src 10 was first seen 11 minutes ago: both trees
e = step(12, "data  from NEW unclaimed src 30", data(30))
print("                 ^^^ differs between the trees (clean: returned without identity, changed: held back)")
f = step(15, "data  from unclaimed src 30", data(30))
print("                 ^^^ differs between the trees")
g = step(16, "claim from src 30 (Navico/777)", claim(30, name64(777, 275)))
h = step(16, "data  from src 30", data(30))
assert g is not None and h is not None and h.source_iso_name.unique_number == 777
assert 10 not in d.source_to_iso_name                # the claim of 30 did not give 10 an identity
i = step(17, "data  from unclaimed src 10", data(10))
assert i is not None and i.source_iso_name is None
j = step(18, "data  from NEW unclaimed src 40", data(40))
k = step(28.5, "data  from unclaimed src 40", data(40))
assert k is not None and k.source_iso_name is None   # 10.5 minutes after its first message: both trees
for m in (e, f, j):
    assert m is None or m.source_iso_name is None    # never an identity the source did not claim
print("RESULT: late-joining unclaimed source is held back for a window of its own:", e is None and f is None and j is None)
