"""Change B: the EByte/ECAN receive path takes all the bytes the connection offers per wake-up.

Feeds the concatenation of the encoder's 13-byte packets (a 3-frame fast-packet message and two
single-frame messages), cut at an awkward place, plus 5 bytes of a packet that never completes, then
EOF, into the reader of an EByteNmea2000Gateway and calls the receive step by hand. Prints how many
messages each step delivers and how the end of the stream is reported. The set and order of delivered
messages is the same on both trees. Exits 0 on the clean and on the changed tree.
"""
import asyncio
import logging
from nmea2000.decoder import NMEA2000Decoder
from nmea2000.encoder import NMEA2000Encoder
from nmea2000.ioclient import EByteNmea2000Gateway

logging.disable(logging.CRITICAL)

def key(msg):
    return (msg.PGN, msg.source, msg.destination, msg.priority, [(f.id, f.value) for f in msg.fields])

async def main():
    dec, enc = NMEA2000Decoder(), NMEA2000Encoder()
    heading = dec.decode_tcp(bytes.fromhex("8800ff00093f9fdcffffffffff"))                       # single frame
    fast = dec.decode_actisense_string(
        "A000057.063 09FF7 1FF1A 3F9F24000000FFFFFFFFEFFFFFFF009AFFFFFFADFFFFFF050000000000")  # fast packet
    sent = [heading, fast, heading]
    packets = [p for m in sent for p in enc.encode_ebyte(m)]
    assert all(len(p) == 13 for p in packets)
    stream = b"".join(packets)
    print(f"{len(sent)} messages -> {len(packets)} packets of 13 bytes -> {len(stream)} bytes + 5 stray bytes + EOF")

    client = EByteNmea2000Gateway("127.0.0.1", 1)      # never connected: the reader is fed by hand
    got = []
    async def on_message(m):
        got.append(m)
    client.set_receive_callback(on_message)
    reader = asyncio.StreamReader()
    client.reader = reader
    reader.feed_data(stream[:30])                       # 2 packets and 4 bytes of the third

    steps = 0
    async def step():
        nonlocal steps
        before = len(got)
        await client._receive_impl()
        await client.queue.join()
        steps += 1
        print(f"  receive step {steps}: {len(got) - before} message(s) delivered")

    await step()
    reader.feed_data(stream[30:] + packets[0][:5])
    reader.feed_eof()
    end = None
    for _ in range(len(packets) + 2):
        try:
            await step()
        except Exception as e:
            end = e
            break
    print(f"  end of stream reported as {type(end).__name__}: {end}")
    assert end is not None
    assert [key(m) for m in got] == [key(m) for m in sent], "messages differ"
    print(f"delivered {len(got)} messages in {steps} receive steps; same messages, same order as sent: OK")
    await client.close()

asyncio.run(main())
