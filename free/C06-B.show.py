"""show_B: how decode_usb reports a damaged Waveshare packet (wrong checksum / wrong size).

Encodes one message, shows that the intact packet decodes, then corrupts single bytes and shows what
decode_usb does with them (return value or exception), and finally pushes intact + corrupted + intact
packets through the real WaveShareNmea2000Gateway receive path. Exits 0 on both trees.
"""
import asyncio
import logging

from nmea2000.decoder import NMEA2000Decoder
from nmea2000.encoder import NMEA2000Encoder
from nmea2000.ioclient import WaveShareNmea2000Gateway
from nmea2000.utils import calculate_canbus_checksum

logging.disable(logging.CRITICAL)

d = NMEA2000Decoder()
msg = d.decode_basic_string("2012-06-17-15:02:11.000,6,59904,0,255,3,14,f0,01")
pkt = NMEA2000Encoder().encode_usb(msg)[0]
print("intact packet   ", pkt.hex(), "->", type(NMEA2000Decoder().decode_usb(pkt)).__name__)


def report(label, packet):
    try:
        r = NMEA2000Decoder().decode_usb(packet)
        print(f"{label:16s}", packet.hex(), "-> returned", r)
    except Exception as e:
        print(f"{label:16s}", packet.hex(), "-> raised", type(e).__name__,
              "(is a ValueError)" if isinstance(e, ValueError) else "", "-", str(e)[:40] + "...")


for pos, delta in ((2, 1), (9, 5), (12, 0x80), (18, 0xFF), (19, 1)):
    bad = bytearray(pkt)
    bad[pos] = (bad[pos] + delta) & 0xFF
    report(f"byte {pos} +0x{delta:02x}", bytes(bad))
report("19 bytes only", pkt[:19])

# in every case the corruption is exposed: no message comes out
exposed = 0
for pos in range(2, 20):
    for delta in range(1, 256):
        bad = bytearray(pkt)
        bad[pos] = (bad[pos] + delta) & 0xFF
        try:
            r = NMEA2000Decoder().decode_usb(bytes(bad))
        except Exception:
            r = None
        if r is None and calculate_canbus_checksum(bad) != bad[19]:
            exposed += 1
print("single byte corruptions exposed:", exposed, "of", 18 * 255)


class Reader:
    def __init__(self, data):
        self.data = data

    async def read(self, n):
        chunk, self.data = self.data[:n], self.data[n:]
        return chunk


async def through_client():
    client = WaveShareNmea2000Gateway("port")
    client._process_queue_task.cancel()
    client._buffer = bytearray()
    bad = bytearray(pkt)
    bad[12] ^= 0x40
    client.reader = Reader(pkt + bytes(bad) + pkt)
    try:
        while True:
            await client._receive_impl()
    except ConnectionError:
        pass
    print("receive path, stream = intact + corrupted + intact -> messages delivered:", client.queue.qsize())


asyncio.run(through_client())
