"""show_A: what happens to the transport of a connection that has just failed.

Part 1: the gateway half-closes (EOF to the client) and stops listening, so every redial is refused.
        Does the gateway see the client hang up the dead connection?
Part 2: a write fails (drain() raises) while the read side is still healthy and redials are refused.
        Does the gateway see the hang-up, and is a frame it sends afterwards on the OLD connection
        still delivered while the client says DISCONNECTED?
Exits 0 on both trees; only the printed facts differ.
"""
import asyncio
import logging

from nmea2000.ioclient import YachtDevicesNmea2000Gateway, State
from nmea2000.message import NMEA2000Message

logging.disable(logging.CRITICAL)
LINE = b"00:01:54.430 R 15F11910 00 00 00 E5 0B 1D FF FF\r\n"
ISO_REQUEST = '{"PGN":59904,"id":"isoRequest","description":"ISO Request","fields":[{"id":"pgn","name":"PGN","description":null,"unit_of_measurement":null,"value":60928,"raw_value":60928,"physical_quantities":null,"type":[13],"part_of_primary_key":false}],"source":0,"destination":255,"priority":6,"timestamp":"2012-06-17T15:02:11","source_iso_name":null,"hash":null}'


async def scenario(fault):
    peers = []
    accepted = asyncio.Event()

    async def on_client(reader, writer):
        peers.append((reader, writer))
        accepted.set()

    server = await asyncio.start_server(on_client, "127.0.0.1", 0)
    port = server.sockets[0].getsockname()[1]

    states, frames = [], []
    client = YachtDevicesNmea2000Gateway("127.0.0.1", port)

    async def on_status(s):
        states.append(s.name)

    async def on_frame(m):
        frames.append(m.PGN)

    client.set_status_callback(on_status)
    client.set_receive_callback(on_frame)
    await client.connect()
    await accepted.wait()
    sreader, swriter = peers[0]
    swriter.write(LINE)
    await swriter.drain()
    await asyncio.sleep(0.2)
    delivered_before = len(frames)

    # the gateway stops accepting: every redial is refused from now on
    server.close()

    if fault == "eof":
        swriter.write_eof()               # half-close: the client reads EOF, the gateway keeps listening to it
    else:
        async def broken_drain():
            raise ConnectionResetError("injected write error")
        client.writer.drain = broken_drain
        await client.send(NMEA2000Message.from_json(ISO_REQUEST))

    # does the gateway see the client hang up the failed connection?
    async def wait_hangup():
        while True:
            data = await sreader.read(1000)
            if not data:
                return True
    try:
        hangup = await asyncio.wait_for(wait_hangup(), 1.5)
    except asyncio.TimeoutError:
        hangup = False

    late = None
    if fault == "write":
        # the gateway, unaware, sends one more frame on the old connection
        try:
            swriter.write(LINE)
            await swriter.drain()
        except Exception:
            pass
        await asyncio.sleep(0.3)
        late = len(frames) - delivered_before

    print(f"  fault={fault:5s} states={states} state_now={client.state.name}")
    print(f"    old transport closed by the client (is_closing) : {client.writer.is_closing()}")
    print(f"    gateway saw the client hang up within 1.5 s     : {hangup}")
    if late is not None:
        print(f"    frames delivered from the OLD connection after the write error: {late}")
    await client.close()
    swriter.close()


async def main():
    print("transport of a failed connection (redials are refused meanwhile):")
    await scenario("eof")
    await scenario("write")


asyncio.run(main())
