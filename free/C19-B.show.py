"""show_B: what happens to the old link when a write fails?

Part 1 (fake link): a 3-packet message is sent, the 2nd write fails.  Prints what was written,
whether close() was called on the failed link, the status notifications and the reconnection.
Part 2 (real loopback TCP): a client is connected to a small server, one write is made to fail.
Prints the order in which the server sees the hang-up of the first connection and the arrival of
the second one.

clean tree   : failed link is left open: close() calls 0; the server sees the old connection go
               away only after the new one has arrived (when Python happens to collect the object)
changed tree : failed link is closed at once: close() calls 1; the server sees the hang-up before
               DISCONNECTED has even been reported, and before the new connection
In both trees: DISCONNECTED is reported and a reconnection is made.  Exits 0 on both.
"""
import asyncio
import logging

from nmea2000.encoder import NMEA2000Encoder
from nmea2000.ioclient import EByteNmea2000Gateway, State
from nmea2000.message import NMEA2000Message, NMEA2000Field

logging.disable(logging.CRITICAL)


def distance_log(priority: int, log: int) -> NMEA2000Message:
    """PGN 128275 is a fast-packet PGN: 14 bytes of payload -> 3 packets."""
    return NMEA2000Message(PGN=128275, priority=priority, source=1, destination=255, fields=[
        NMEA2000Field(id="date", raw_value=19000),
        NMEA2000Field(id="time", raw_value=100),
        NMEA2000Field(id="log", value=log),
        NMEA2000Field(id="tripLog", value=7),
    ])


class FakeWriter:
    def __init__(self, fail_at_write=None):
        self.written = []
        self.close_calls = 0
        self.fail_at_write = fail_at_write

    def write(self, data):
        self.written.append(bytes(data))

    async def drain(self):
        if self.fail_at_write is not None and len(self.written) >= self.fail_at_write:
            raise ConnectionResetError("link broke")
        await asyncio.sleep(0)

    def close(self):
        self.close_calls += 1


async def part1():
    print("--- part 1: fake link, the 2nd of 3 writes fails")
    client = EByteNmea2000Gateway("127.0.0.1", 1)
    old = FakeWriter(fail_at_write=2)
    new = FakeWriter()
    client.writer = old
    client._state = State.CONNECTED
    connects = []
    states = []

    async def fake_connect():
        connects.append(1)
        client.writer = new

    async def fake_receive():
        await asyncio.sleep(3600)

    async def on_status(state):
        states.append(state.name)

    client._connect_impl = fake_connect
    client._receive_impl = fake_receive
    client.set_status_callback(on_status)

    msg = distance_log(3, 1234)
    expected = NMEA2000Encoder().encode_ebyte(msg)
    await client.send(msg)
    await asyncio.sleep(0.05)
    print("packets written before the failure are the encoder's first packets:",
          old.written == expected[:len(old.written)], f"({len(old.written)} of {len(expected)})")
    print("status notifications        :", states)
    print("reconnections               :", len(connects))
    print("close() calls on failed link:", old.close_calls)
    print("close() calls on new link   :", new.close_calls)
    assert states[:1] == ["DISCONNECTED"] and len(connects) == 1 and client.state == State.CONNECTED
    await client.close()


async def part2():
    print("--- part 2: real TCP on loopback, one write fails; the status callback is slow (0.3 s)")
    events = []         # what the server sees, in order
    accepted = []

    async def handle(reader, writer):
        idx = len(accepted)
        accepted.append(writer)
        events.append(f"accept#{idx}")
        try:
            while await reader.read(100):
                pass
        except Exception:
            pass
        events.append(f"hangup#{idx}")

    server = await asyncio.start_server(handle, "127.0.0.1", 0)
    port = server.sockets[0].getsockname()[1]
    client = EByteNmea2000Gateway("127.0.0.1", port)
    states = []
    hung_up_when_reported = []

    async def on_status(state):
        states.append(state.name)
        if state == State.DISCONNECTED:
            await asyncio.sleep(0.3)        # a slow user callback; the reconnection starts after it
            hung_up_when_reported.append("hangup#0" in events)

    client.set_status_callback(on_status)
    await asyncio.wait_for(client.connect(), 5)

    async def broken_drain():
        raise ConnectionResetError("simulated: link broke")

    client.writer.drain = broken_drain      # the next write on this link fails
    await client.send(distance_log(3, 1))
    for _ in range(100):                    # wait for the reconnection
        await asyncio.sleep(0.02)
        if client.state == State.CONNECTED and len(accepted) >= 2:
            break
    await asyncio.sleep(0.3)
    print("status notifications              :", states)
    print("connections seen by the server    :", len(accepted))
    print("old connection already hung up while DISCONNECTED was reported:", hung_up_when_reported)
    print("what the server saw, in order     :", events)
    assert "DISCONNECTED" in states and len(accepted) >= 2 and client.state == State.CONNECTED
    await client.close()
    for w in accepted:
        w.close()
    server.close()
    await server.wait_closed()


async def main():
    await part1()
    await part2()


asyncio.run(main())
