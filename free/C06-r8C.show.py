"""show_C: what do the two binary decoders do with frames that are not NMEA 2000 frames?

Takes one encoder packet per binary format (it decodes on both trees), then derives from it frames the
encoder never produces: a standard (11-bit) frame, a remote frame, a frame with a data length above 8,
and (EByte only) a packet that is not 13 bytes long. The Waveshare variants get a correct checksum, so
only the frame-type / length bytes differ. Prints what decode_tcp / decode_usb does with each.
Exits 0 on the clean and on the changed tree; only the treatment of the foreign frames differs.
"""
import logging
import sys

from nmea2000.decoder import NMEA2000Decoder
from nmea2000.encoder import NMEA2000Encoder
from nmea2000.utils import calculate_canbus_checksum

logging.disable(logging.CRITICAL)


def attempt(decode, packet):
    try:
        msg = decode(packet)
    except Exception as e:  # noqa: BLE001 - we want to print whatever is raised
        return None, f"rejected: {type(e).__name__}: {e}"
    if msg is None:
        return None, "ignored (None)"
    return msg, f"decoded: PGN {msg.PGN} src {msg.source} dst {msg.destination} prio {msg.priority} " \
                f"fields {[f.raw_value for f in msg.fields]}"


def usb_variant(packet, **changes):
    q = bytearray(packet)
    for pos, value in changes.items():
        q[int(pos[1:])] = value
    q[19] = calculate_canbus_checksum(q)
    return bytes(q)


def main():
    src = NMEA2000Decoder()
    msg = src.decode_actisense_string("A000057.055 09FF7 0FF00 3F9FDCFFFFFFFFFF")
    assert msg is not None
    enc = NMEA2000Encoder()
    ok = True

    eb = enc.encode_ebyte(msg)[0]
    print("== EByte / ECAN (decode_tcp)")
    cases = [
        ("encoder packet (extended data frame)", eb, True),
        ("standard 11-bit frame (FF bit clear)", bytes([eb[0] & 0x7F]) + eb[1:], False),
        ("remote frame (RTR bit set)", bytes([eb[0] | 0x40]) + eb[1:], False),
        ("data length nibble 15", bytes([(eb[0] & 0xF0) | 0x0F]) + eb[1:], False),
        ("12 bytes only", eb[:12], False),
        ("14 bytes", eb + b"\x00", False),
    ]
    for label, packet, must_decode in cases:
        got, text = attempt(NMEA2000Decoder().decode_tcp, packet)
        print(f"  {label:<38} {packet.hex()}\n      -> {text}")
        if must_decode:
            ok = ok and got is not None and got.PGN == msg.PGN and \
                [f.raw_value for f in got.fields] == [f.raw_value for f in msg.fields]

    ub = enc.encode_usb(msg)[0]
    print("== Waveshare USB (decode_usb), every variant carries a valid checksum")
    cases = [
        ("encoder packet (extended data frame)", ub, True),
        ("standard 11-bit frame (byte 3 = 0x01)", usb_variant(ub, b3=0x01), False),
        ("remote frame (byte 4 = 0x02)", usb_variant(ub, b4=0x02), False),
        ("data length byte 9", usb_variant(ub, b9=9), False),
    ]
    for label, packet, must_decode in cases:
        assert len(packet) == 20 and packet[19] == calculate_canbus_checksum(packet)
        got, text = attempt(NMEA2000Decoder().decode_usb, packet)
        print(f"  {label:<38} {packet.hex()}\n      -> {text}")
        if must_decode:
            ok = ok and got is not None and got.PGN == msg.PGN and \
                [f.raw_value for f in got.fields] == [f.raw_value for f in msg.fields]

    print("encoder packets decode ok" if ok else "PROBLEM")
    return 0 if ok else 1


if __name__ == "__main__":
    sys.exit(main())
