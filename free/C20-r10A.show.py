"""show_A: receive queue of the serial client - unbounded (clean) or bounded with back-pressure (change A).

A stream of 1000 valid packets arrives; the receive callback is slow (1 ms per message).
Printed: how far the client has read ahead of the callback, and that every packet is delivered.
Exits 0 on both trees.
"""
import asyncio
import logging

from nmea2000.ioclient import WaveShareNmea2000Gateway

logging.disable(logging.CRITICAL)

BASE = bytes.fromhex("aa550102010900ff1c083f9fdcffffffffff00e5")
N = 1000


def packet(i: int) -> bytes:
    """A valid packet; the payload varies with i so that packets can be told apart."""
    p = bytearray(BASE)
    p[10] = i % 100          # payload bytes (none of them 0xaa/0x55)
    p[11] = i // 100
    p[19] = sum(p[2:19]) & 0xFF
    assert b"\xaa\x55" not in p[2:]
    return bytes(p)


class FakeReader:
    def __init__(self, data: bytes):
        self.data = data
        self.pos = 0
        self.reads = 0

    async def read(self, n: int) -> bytes:
        if self.pos >= len(self.data):
            await asyncio.Event().wait()      # quiet line, no EOF
        chunk = self.data[self.pos:self.pos + n]
        self.pos += len(chunk)
        self.reads += 1
        await asyncio.sleep(0)
        return chunk


async def main():
    client = WaveShareNmea2000Gateway("dummy-port")
    reader = FakeReader(b"".join(packet(i) for i in range(N)))
    client.reader = reader
    client._buffer = bytearray()

    got = []
    max_q = 0
    done = asyncio.Event()
    samples = {}

    async def on_message(msg):
        nonlocal max_q
        got.append(bytes(msg.raw_can_data))
        max_q = max(max_q, client.queue.qsize())
        if len(got) in (1, 10, 100, 500):
            samples[len(got)] = (reader.pos, client.queue.qsize())
        await asyncio.sleep(0.001)            # a slow consumer
        if len(got) == N:
            done.set()

    client.set_receive_callback(on_message)
    client._receive_task = asyncio.create_task(client._receive_loop())
    await asyncio.wait_for(done.wait(), 60)

    print(f"queue bound (maxsize, 0 = unbounded): {client.queue.maxsize}")
    for k, (pos, q) in samples.items():
        print(f"at callback #{k:<4}: bytes taken from the port = {pos:6d} "
              f"({pos // 20 - k:4d} packets ahead of the callback), messages waiting in queue = {q}")
    print(f"largest number of messages waiting in the queue: {max_q}")
    print(f"delivered {len(got)} of {N} packets, in order and complete: "
          f"{got == [packet(i) for i in range(N)]}")
    await client.close()


asyncio.run(main())
