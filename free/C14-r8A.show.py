"""show_A: which states are reported to the status callback over a session.

Session 1: connect to a live gateway, the gateway drops the link, the client re-connects, close().
Session 2: connect() to a port where nobody listens (retries), close() during the retries,
           then a late connect() on the closed client.
Prints the sequence of states handed to the status callback.  Exits 0 on every tree.
"""
import asyncio
import logging
import socket

from nmea2000.ioclient import ActisenseNmea2000Gateway, State

logging.disable(logging.CRITICAL)


def free_port():
    s = socket.socket()
    s.bind(("127.0.0.1", 0))
    port = s.getsockname()[1]
    s.close()
    return port


async def session_live():
    writers = []

    async def on_client(reader, writer):
        writers.append(writer)

    server = await asyncio.start_server(on_client, "127.0.0.1", 0)
    port = server.sockets[0].getsockname()[1]
    seen = []

    async def on_status(state):
        seen.append(state.name)

    client = ActisenseNmea2000Gateway("127.0.0.1", port)
    client.set_status_callback(on_status)
    await client.connect()
    await asyncio.sleep(0.1)
    writers[0].close()                      # the gateway drops the link
    for _ in range(100):                    # wait for the re-connection
        await asyncio.sleep(0.05)
        if len(writers) == 2 and client.state == State.CONNECTED:
            break
    await client.close()
    after_close = client.state.name
    await asyncio.sleep(0.2)
    for w in writers:
        w.close()
    server.close()
    assert all(a != b for a, b in zip(seen, seen[1:])), "same state twice in a row"
    assert seen[-1] == "CLOSED" and seen.count("CLOSED") == 1
    return seen, after_close, client.state.name


async def session_dead():
    port = free_port()
    seen = []

    async def on_status(state):
        seen.append(state.name)

    client = ActisenseNmea2000Gateway("127.0.0.1", port)
    client.set_status_callback(on_status)
    task = asyncio.create_task(client.connect())
    await asyncio.sleep(0.2)                # first attempt has failed, connect() is in its back-off
    during = client.state.name
    await client.close()
    await client.connect()                  # late connect on the closed client
    await asyncio.sleep(1.0)                # the retry wakes up and finds the client closed
    task_done = task.done()
    assert all(a != b for a, b in zip(seen, seen[1:])), "same state twice in a row"
    assert seen[-1] == "CLOSED" and seen.count("CLOSED") == 1
    return seen, during, client.state.name, task_done


async def main():
    print("State members:", [s.name for s in State])
    seen, after_close, final = await session_live()
    print("live gateway, drop, re-connect, close -> callbacks:", " > ".join(seen))
    print("   state right after close():", after_close, "| 0.2 s later:", final)
    seen, during, final, task_done = await session_dead()
    print("dead port, close during retries      -> callbacks:", " > ".join(seen))
    print("   state while retrying:", during, "| final:", final, "| connect() task finished:", task_done)
    assert final == "CLOSED" and task_done


asyncio.run(main())
