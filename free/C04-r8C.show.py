"""show_C: what `raw_can_data` of a reassembled fast packet message holds.

The history is INSIDE the quantifier of C04 (one message, its non-first frames reordered, one duplicated).
The reassembled payload and the moment of delivery are the same on both trees; only the `raw_can_data`
attribute of the returned message (C04 says nothing about it) differs:
Clean tree : the raw data of the single frame that happened to complete the message.
Changed    : the raw data of all frames of the message in frame order (binary packets back to back,
             text gateway lines separated by a newline).
Exits 0 on both trees.
"""
from nmea2000.decoder import NMEA2000Decoder
from nmea2000.encoder import NMEA2000Encoder

PGN, PRIO, SRC, DST = 127496, 5, 7, 255  # "Trip Parameters, Vessel": decodes any bytes


class Tap(NMEA2000Decoder):
    """Decoder that also remembers the payload handed to the PGN decoding function."""
    def __init__(self):
        super().__init__()
        self.payloads = []

    def _call_decode_function(self, pgn, priority, src, dest, timestamp, data, *a, **kw):
        self.payloads.append(bytes(data[::-1]))  # back to bus order
        return super()._call_decode_function(pgn, priority, src, dest, timestamp, data, *a, **kw)


def frames(seq, payload):
    """Fast packet frames (8 data bytes each, 0xFF padded) of one message."""
    out, chunks = [], [payload[:6]] + [payload[i:i + 7] for i in range(6, len(payload), 7)]
    for n, chunk in enumerate(chunks):
        head = bytes([(seq << 5) | n]) + (bytes([len(payload)]) if n == 0 else b"")
        out.append((head + chunk).ljust(8, b"\xff"))
    return out


def packet(data8):
    frame_id = NMEA2000Encoder._build_header(PGN, SRC, DST, PRIO)
    return bytes([0x88]) + frame_id.to_bytes(4, "big") + data8


def main():
    m1 = bytes(range(0x10, 0x10 + 20))      # seq 3, 20 bytes -> frames 0..2
    f1 = frames(3, m1)
    order = [("frame 0", f1[0]), ("frame 2", f1[2]), ("frame 2 (dup)", f1[2]), ("frame 1", f1[1])]

    print("binary gateway packets (decode_tcp):")
    dec = Tap()
    result = None
    for label, f in order:
        msg = dec.decode_tcp(packet(f))
        print(f"  {label:14s} {packet(f).hex()} -> {'message' if msg else 'None'}")
        result = msg or result
    assert dec.payloads == [m1] and result is not None
    print("  payload      :", dec.payloads[0].hex(), "(as sent)")
    print("  raw_can_data :", result.raw_can_data.hex())
    raw_tcp = result.raw_can_data

    print("text gateway lines (decode_yacht_devices_string):")
    dec = Tap()
    result = None
    frame_id = NMEA2000Encoder._build_header(PGN, SRC, DST, PRIO)
    for label, f in order:
        line = f"17:33:21.107 R {frame_id:08X} " + " ".join(f"{b:02X}" for b in f)
        msg = dec.decode_yacht_devices_string(line)
        print(f"  {label:14s} {line} -> {'message' if msg else 'None'}")
        result = msg or result
    assert dec.payloads == [m1] and result is not None
    print("  payload      :", dec.payloads[0].hex(), "(as sent)")
    print("  raw_can_data :", repr(result.raw_can_data))

    print()
    if raw_tcp == packet(f1[1]):
        print("=> raw_can_data is the frame that completed the message (clean tree)")
    elif raw_tcp == b"".join(packet(f) for f in f1):
        print("=> raw_can_data is all frames of the message in frame order (changed tree)")
    else:
        print("=> raw_can_data is something else")


if __name__ == "__main__":
    main()
