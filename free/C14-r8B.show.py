"""show_B: what connect() and send() do when they are called on a client that was already closed.

Prints what each late call returns or raises, and checks what the property does fix: the state stays
CLOSED and the gateway never sees a new connection or a byte.  Exits 0 on every tree.
"""
import asyncio
import logging

from nmea2000.ioclient import YachtDevicesNmea2000Gateway, State
from nmea2000.message import NMEA2000Message

logging.disable(logging.CRITICAL)
ISO = '{"PGN":59904,"id":"isoRequest","description":"ISO Request","fields":[{"id":"pgn","name":"PGN","description":null,"unit_of_measurement":null,"value":60928,"raw_value":60928,"physical_quantities":null,"type":[13],"part_of_primary_key":false}],"source":0,"destination":255,"priority":6,"timestamp":"2012-06-17T15:02:11","source_iso_name":null,"hash":null}'


async def attempt(name, call):
    try:
        result = await call()
        return f"{name} returned {result!r}"
    except Exception as e:
        return f"{name} raised {type(e).__name__} ({', '.join(c.__name__ for c in type(e).__mro__[1:3])}): {e}"


async def main():
    peers, received = [], bytearray()

    async def on_client(reader, writer):
        peers.append(writer)
        while data := await reader.read(1000):
            received.extend(data)

    server = await asyncio.start_server(on_client, "127.0.0.1", 0)
    port = server.sockets[0].getsockname()[1]
    states = []

    async def on_status(state):
        states.append(state.name)

    client = YachtDevicesNmea2000Gateway("127.0.0.1", port)
    client.set_status_callback(on_status)
    msg = NMEA2000Message.from_json(ISO)

    await client.connect()
    await client.send(msg)
    await asyncio.sleep(0.1)
    print("while connected: send() wrote", len(received), "bytes to the gateway")
    # a send that is in progress when close() comes
    real_drain = client.writer.drain

    async def slow_drain():
        await asyncio.sleep(0.2)
        await real_drain()

    client.writer.drain = slow_drain
    in_flight = asyncio.create_task(attempt("send() in progress at close()", lambda: client.send(msg)))
    await asyncio.sleep(0.05)               # the send is now waiting in drain()
    await client.close()
    print(await in_flight)
    n_peers, n_bytes = len(peers), len(received)

    print(await attempt("send() after close()", lambda: client.send(msg)))
    print(await attempt("connect() after close()", client.connect))
    print(await attempt("second close()", client.close))
    await asyncio.sleep(0.3)
    print("state:", client.state.name, "| status callbacks:", " > ".join(states))
    print("gateway after close(): new connections", len(peers) - n_peers, "| new bytes", len(received) - n_bytes)
    assert client.state == State.CLOSED and len(peers) == n_peers
    assert states == ["CONNECTED", "CLOSED"]
    for w in peers:
        w.close()
    server.close()


asyncio.run(main())
