"""show_A: what does `raw_can_data` of a reassembled fast-packet message contain?

clean tree  : the raw input of the LAST frame only (the one that completed the message)
changed tree: the raw input of ALL frames of the message, in frame order
              (packets concatenated / text lines joined by a newline)
The decoded message (fields, payload) is the same on both trees.
"""
import sys
from nmea2000.decoder import NMEA2000Decoder
from nmea2000.encoder import NMEA2000Encoder

LINES = """2022-09-28-11:36:59.668,3,129029,0,255,8,00,2f,e7,95,3d,00,73,d6
2022-09-28-11:36:59.668,3,129029,0,255,8,01,29,00,da,04,73,db,c9
2022-09-28-11:36:59.668,3,129029,0,255,8,02,e5,05,80,7d,02,28,5f
2022-09-28-11:36:59.668,3,129029,0,255,8,03,d6,10,f6,9b,50,6c,05
2022-09-28-11:36:59.668,3,129029,0,255,8,04,00,00,00,00,13,fc,08
2022-09-28-11:36:59.668,3,129029,0,255,8,05,6f,00,be,00,dd,f2,ff
2022-09-28-11:36:59.668,3,129029,0,255,8,06,ff,00,ff,ff,ff,ff,ff""".splitlines()

# 1. text gateway format
dec = NMEA2000Decoder()
results = [dec.decode_basic_string(line) for line in LINES]
assert all(r is None for r in results[:-1]), "nothing before the last frame"
msg = results[-1]
assert msg is not None and msg.PGN == 129029
print("text input : raw_can_data has %d line(s)" % len(str(msg.raw_can_data).split("\n")))
if msg.raw_can_data == LINES[-1]:
    print("             -> only the LAST frame's line (clean behaviour)")
elif msg.raw_can_data == "\n".join(LINES):
    print("             -> ALL frame lines joined by newline (changed behaviour)")
else:
    print("             -> something else: %r" % (msg.raw_can_data,))

# 2. binary gateway format, public encode -> decode path
enc = NMEA2000Encoder()
packets = enc.encode_ebyte(msg)
dec2 = NMEA2000Decoder()
out = [dec2.decode_tcp(p) for p in packets]
assert all(r is None for r in out[:-1]), "nothing before the last frame"
msg2 = out[-1]
assert msg2 is not None
assert [f.raw_value for f in msg2.fields] == [f.raw_value for f in msg.fields], "same payload on both trees"
print("ebyte input: %d packets of %d bytes, raw_can_data has %d bytes" % (len(packets), len(packets[0]), len(msg2.raw_can_data)))
if msg2.raw_can_data == packets[-1]:
    print("             -> only the LAST packet (clean behaviour)")
elif msg2.raw_can_data == b"".join(packets):
    print("             -> ALL packets concatenated (changed behaviour)")
else:
    print("             -> something else")
sys.exit(0)
