"""show_C: how undecodable input is reported.

A fake Actisense gateway (loopback, ephemeral port) sends 330 lines: 300 undecodable ones of three kinds
(free text, bad hex digits, missing data part) with a valid PGN 65280 line after every tenth of them.
Printed: what the callback got (identical on both trees) and what the client logged / counted (differs).
Exit code is always 0.
"""
import asyncio
import logging

from nmea2000.ioclient import ActisenseNmea2000Gateway

VALID = b"A000057.055 09FF7 0FF00 3F9FDCFFFFFFFFFF\r\n"
GARBAGE = [b"$GPGLL,4916.45,N,12311.12,W,225444,A\r\n",      # NMEA 0183 sentence: gateway in the wrong mode
           b"A000057.055 09FF7 0FF00 3F9FDCFFFFFFFFZZ\r\n",    # bad hex digits
           b"A000057.055 09FF7 0FF00\r\n"]                     # data part missing


class Recorder(logging.Handler):
    def __init__(self):
        super().__init__(level=logging.WARNING)
        self.warnings = 0
        self.tracebacks = 0
        self.summaries = []

    def emit(self, record):
        text = record.getMessage()
        if "decod" not in text:
            return
        self.warnings += 1
        if record.exc_info:
            self.tracebacks += 1
        if "so far" in text:
            self.summaries.append(text[:60])


async def main():
    recorder = Recorder()
    log = logging.getLogger("nmea2000.ioclient")
    log.addHandler(recorder)
    log.propagate = False

    stream = b""
    valid_sent = 0
    for i in range(300):
        stream += GARBAGE[i % 3]
        if i % 10 == 9:
            stream += VALID
            valid_sent += 1

    stop = asyncio.Event()

    async def gateway(reader, writer):
        for i in range(0, len(stream), 777):   # arbitrary chunking
            writer.write(stream[i:i + 777])
            await writer.drain()
        await stop.wait()
        writer.close()

    server = await asyncio.start_server(gateway, "127.0.0.1", 0)
    port = server.sockets[0].getsockname()[1]

    got = []
    done = asyncio.Event()

    async def on_message(message):
        got.append(message.PGN)
        if len(got) == valid_sent:
            done.set()

    client = ActisenseNmea2000Gateway("127.0.0.1", port)
    client.set_receive_callback(on_message)
    await client.connect()
    try:
        await asyncio.wait_for(done.wait(), timeout=30)
        await asyncio.sleep(0.3)
    except asyncio.TimeoutError:
        print("not all messages arrived within 30 s")
    state = client.state
    await client.close()
    stop.set()
    await asyncio.sleep(0.05)
    server.close()

    print(f"valid lines sent: {valid_sent}, messages delivered: {len(got)}, all PGN 65280: {set(got) == {65280}}")
    print(f"client state after the stream: {state}")
    print(f"undecodable lines sent: 300")
    print(f"warnings about undecodable input in the log: {recorder.warnings}  (with a traceback: {recorder.tracebacks})")
    print(f"periodic summary lines: {recorder.summaries}")
    print(f"client.decode_failures: {getattr(client, 'decode_failures', '<no such attribute>')}")


asyncio.run(main())
