"""show_B: what happens to input that is NOT a well-formed carrier of a CAN frame?

For each of the five formats one structurally broken input is decoded and the outcome
(decoded message / None / exception) is printed.  Then the same well-formed frame is
decoded through all five formats to show that the outcome there is unchanged.
Exits 0 on both the clean and the changed tree.
"""
import logging

from nmea2000.decoder import NMEA2000Decoder
from nmea2000.utils import calculate_canbus_checksum

logging.basicConfig(level=logging.ERROR)

CAN_ID = 0x09F8011C          # prio 2, PGN 129025 (Position, Rapid Update), src 0x1C
DATA = bytes.fromhex("7fa3cd1809e4d6b2")
prio, pgn, src, dst = 2, 129025, 0x1C, 255
hexs = [f"{b:02X}" for b in DATA]


def content(msg):
    return (msg.PGN, msg.id, msg.description, msg.source, msg.destination, msg.priority,
            [(f.id, f.value, f.raw_value) for f in msg.fields])


def usb_packet(can_id, data, dlc=None):
    dlc = len(data) if dlc is None else dlc
    body = bytes([0xAA, 0x55, 0x01, 0x02, 0x01]) + can_id.to_bytes(4, "little") + bytes([dlc]) + data + bytes(8 - len(data)) + b"\x00"
    return body + bytes([calculate_canbus_checksum(body + b"\x00")])


def outcome(fn):
    try:
        msg = fn(NMEA2000Decoder())
    except Exception as e:  # noqa: BLE001
        return f"raised {type(e).__name__}: {e}"
    if msg is None:
        return "returned None"
    return "DECODED a message: " + ", ".join(f"{f.id}={f.value}" for f in msg.fields)


broken = {
    "ebyte, 8 bytes announced but only 3 present":
        lambda d: d.decode_tcp(bytes([0x88]) + CAN_ID.to_bytes(4, "big") + DATA[:3]),
    "ebyte, data length 12 (> 8)":
        lambda d: d.decode_tcp(bytes([0x8C]) + CAN_ID.to_bytes(4, "big") + DATA + bytes(4)),
    "usb, data length 9 (> 8)":
        lambda d: d.decode_usb(usb_packet(CAN_ID, DATA, dlc=9)),
    "yacht devices, 10 data bytes on one line":
        lambda d: d.decode_yacht_devices_string("17:33:21.107 R %08X %s 00 00" % (CAN_ID, " ".join(hexs))),
    "canboat, 8 bytes announced but only 5 present":
        lambda d: d.decode_basic_string("2024-11-17-17:33:21.107,%d,%d,%d,%d,8,%s" % (prio, pgn, src, dst, ",".join(hexs[:5]))),
    "actisense, no data part":
        lambda d: d.decode_actisense_string("A173321.107 %02X%02X%X %05X" % (src, dst, prio, pgn)),
}
print("--- structurally broken input (outside the property) ---")
for name, fn in broken.items():
    print(f"{name:48s} -> {outcome(fn)}")

good = {
    "ebyte": lambda d: d.decode_tcp(bytes([0x80 | len(DATA)]) + CAN_ID.to_bytes(4, "big") + DATA),
    "usb": lambda d: d.decode_usb(usb_packet(CAN_ID, DATA)),
    "yacht_devices": lambda d: d.decode_yacht_devices_string("17:33:21.107 T %08x %s" % (CAN_ID, " ".join(hexs).lower())),
    "actisense": lambda d: d.decode_actisense_string("A173321.107 %02X%02X%X %05X %s" % (src, dst, prio, pgn, DATA.hex())),
    "canboat": lambda d: d.decode_basic_string("2024-11-17T17:33:21.107Z,%d,%d,%d,%d,%d,%s" % (prio, pgn, src, dst, len(DATA), ",".join(hexs))),
}
print("--- well-formed frame ---")
msgs = {name: fn(NMEA2000Decoder()) for name, fn in good.items()}
for name, m in msgs.items():
    print(f"{name:14s} -> {m.id} src={m.source} dst={m.destination} prio={m.priority} " + ", ".join(f"{f.id}={f.value}" for f in m.fields))
print("decoded content identical through all five formats:", all(content(m) == content(msgs["ebyte"]) for m in msgs.values()))
