"""show_B: the 13 bytes b'Sorry,Limited' in the MIDDLE of an EByte stream.

Clean tree : treated as the gateway's "no free connection" notice wherever a 13-byte read happens to
             contain it: the client stops reading for 30 s and then reconnects, so the frames that
             follow on this connection are never delivered.
Changed tree: only the first 13 bytes of a connection can be that notice; later the same bytes are an
             ordinary (unknown PGN) frame, reading goes on and the following frames are delivered.
At the start of a connection both trees treat it as the busy notice.
"""
import asyncio
import logging

from nmea2000.ioclient import EByteNmea2000Gateway, State

logging.disable(logging.CRITICAL)


class DummyWriter:
    def write(self, data): pass
    async def drain(self): pass
    def close(self): pass


def frame(sid: int) -> bytes:
    # PGN 127257 (Attitude) from source 0x10, the first data byte is the SID
    return bytes.fromhex("8815F11910") + bytes([sid]) + bytes.fromhex("0000E50B1DFFFF")


async def run(stream: bytes, wait: float):
    client = EByteNmea2000Gateway("127.0.0.1", 1)
    reader = asyncio.StreamReader()
    connects = 0

    async def fake_connect():
        nonlocal connects
        connects += 1
        client.reader, client.writer = reader, DummyWriter()
    client._connect_impl = fake_connect
    got, states = [], []

    async def cb(msg):
        got.append(msg.fields[0].value)

    async def st(state):
        states.append(state.name)
    client.set_receive_callback(cb)
    client.set_status_callback(st)
    await client.connect()
    reader.feed_data(stream)
    await asyncio.sleep(wait)
    result = (list(got), list(states), connects)
    await client.close()
    return result


async def main():
    got, states, connects = await run(frame(1) + frame(2) + b"Sorry,Limited" + frame(3) + frame(4), 0.3)
    print("stream: F1 F2 'Sorry,Limited' F3 F4  (0.3 s after the bytes arrived)")
    print("   delivered SIDs:", got, " states:", states)
    print("   ->", "mid-stream 'Sorry,Limited' is an ordinary frame, F3 F4 delivered" if got == [1, 2, 3, 4]
          else "mid-stream 'Sorry,Limited' stopped the reading (30 s pause, then reconnect)" if got == [1, 2]
          else "unexpected")
    got, states, connects = await run(b"Sorry,Limited" + frame(3) + frame(4), 0.3)
    print("stream: 'Sorry,Limited' F3 F4  (notice at the start of the connection)")
    print("   delivered SIDs:", got, " states:", states, "(busy notice on both trees)")
    assert got == []


asyncio.run(main())
