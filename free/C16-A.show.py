"""show_A: what happens to truncated fast-packet frames (0 or 1 data bytes).

Prints, for a fast-packet PGN (128275 Distance Log, 14 byte payload = 3 frames):
  1. the outcome of a frame with 0 data bytes and of a first frame with 1 data byte
  2. the outcome of a message whose second frame is first delivered truncated to its counter
     byte alone and then delivered again intact
  3. the probe: the same message with a fresh sequence counter decodes the same as on a
     brand-new decoder (this is what the property is about and is the same on both trees).
Exits 0 on both trees.
"""
import logging
from nmea2000.decoder import NMEA2000Decoder
from nmea2000.encoder import NMEA2000Encoder

logging.disable(logging.CRITICAL)

PGN, SRC, DEST, PRIO = 128275, 7, 255, 6
PAYLOAD = bytes(range(1, 15))


def frames(seq, payload=PAYLOAD):
    """ebyte (13 byte) packets of one fast-packet message"""
    fid = NMEA2000Encoder._build_header(PGN, SRC, DEST, PRIO).to_bytes(4, "big")
    chunks = [bytes([(seq << 5) | 0, len(payload)]) + payload[:6]]
    rest, i = payload[6:], 1
    while rest:
        chunks.append(bytes([(seq << 5) | i]) + rest[:7])
        rest, i = rest[7:], i + 1
    return [bytes([0x80 | len(c)]) + fid + c + bytes(8 - len(c)) for c in chunks]


def truncate(packet, n):
    """same packet with only n data bytes announced in the type byte"""
    return bytes([0x80 | n]) + packet[1:5] + packet[5:5 + n] + bytes(8 - n)


def outcome(decoder, packet):
    try:
        msg = decoder.decode_tcp(packet)
    except Exception as e:  # noqa: BLE001
        return f"raised {type(e).__name__}: {e}"
    if msg is None:
        return "returned None"
    return "returned " + msg.to_string_test_style()


def summary(msg):
    return None if msg is None else (msg.PGN, msg.id, msg.source, msg.destination, msg.priority,
                                     [(f.id, f.value, f.raw_value) for f in msg.fields])


d = NMEA2000Decoder()
f = frames(seq=1)
print("1a. frame with 0 data bytes          ->", outcome(d, truncate(f[0], 0)))
print("1b. first frame with 1 data byte     ->", outcome(d, truncate(f[0], 1)))

d = NMEA2000Decoder()
f = frames(seq=2)
print("2a. first frame                      ->", outcome(d, f[0]))
print("2b. 2nd frame cut to its counter byte->", outcome(d, truncate(f[1], 1)))
print("2c. 2nd frame again, intact          ->", outcome(d, f[1]))
print("2d. 3rd (last) frame                 ->", outcome(d, f[2]))

# probe, fresh sequence counter, after all of the above on the same decoder
probe = frames(seq=5)
got = [d.decode_tcp(p) for p in probe][-1]
fresh = NMEA2000Decoder()
want = [fresh.decode_tcp(p) for p in probe][-1]
print("3.  probe after this history == probe on a new decoder:", summary(got) == summary(want) and got is not None)
