"""show_A: the JSON text of a message with non-ASCII strings.

Clean tree  : the text contains the raw characters (UTF-8 when written to the dump file).
Changed tree: the text is pure 7-bit ASCII, non-ASCII characters are \\uXXXX escapes.
On both trees the text is valid JSON, parses back to the same values, re-encodes to the same
bytes, and the dump file holds exactly that text, one record per line.
"""
import json
import os
import tempfile

from nmea2000.decoder import NMEA2000Decoder
from nmea2000.encoder import NMEA2000Encoder
from nmea2000.message import NMEA2000Message

# PGN 126998 Configuration Information, STRING_LAU fields: "hello", then UTF-16 text
def lau_utf16(text: str) -> list[str]:
    raw = text.encode("utf-16-le")
    return ["%02x" % b for b in bytes([len(raw) + 2, 0]) + raw]

def frame(text: str) -> str:
    data = ["07", "01", "68", "65", "6C", "6C", "6F"] + lau_utf16(text) + ["02", "01"]
    return "2021-01-30-20:43:21.684,6,126998,1,255,%d,%s" % (len(data), ",".join(data))

texts = ["w\u00f3rld", "caf\u00e9 \u2028 line-sep", "\u6d77 \U0001F6A2"]

path = os.path.join(tempfile.mkdtemp(prefix="show_A_"), "dump.jsonl")
returned = []
with NMEA2000Decoder(dump_to_file=path, dump_pgns=["configurationInformation"]) as decoder:
    for t in texts:
        msg = decoder.decode_basic_string(frame(t), True)
        assert msg is not None and msg.fields[1].value == t, (t, msg)
        returned.append(msg)

encoder = NMEA2000Encoder()

def encode_outcome(m):
    # string fields cannot be encoded by this library (on either tree): then the outcome is the error
    try:
        return encoder.encode_actisense(m)
    except ValueError as e:
        return "ValueError: %s" % e

for msg in returned:
    text = msg.to_json()
    print("field value      :", ascii(msg.fields[1].value))
    print("JSON is 7-bit    :", text.isascii())
    start = text.index('"installationDescription2"')
    print("JSON excerpt     :", ascii(text[start:start + 230].split('"raw_value"')[0]))
    # the property: valid JSON, same values, same bytes
    plain = json.loads(text)
    assert plain["fields"][1]["value"] == msg.fields[1].value
    back = NMEA2000Message.from_json(text)
    assert (back.PGN, back.id, back.source, back.destination, back.priority) == \
        (msg.PGN, msg.id, msg.source, msg.destination, msg.priority)
    for f0, f1 in zip(msg.fields, back.fields):
        assert (f0.id, f0.value, f0.raw_value) == (f1.id, f1.value, f1.raw_value)
    assert encode_outcome(back) == encode_outcome(msg)
    print("round trip       : same values, same encoder outcome:", encode_outcome(back)[:60])
    print()

with open(path, "rb") as f:
    raw = f.read()
lines = raw.decode("utf-8").split("\n")
assert lines[-1] == ""
lines = lines[:-1]
print("dump file bytes are all < 0x80 :", all(b < 0x80 for b in raw))
print("dump records (split on \\n)     :", len(lines))
print("dump records (str.splitlines)  :", len(raw.decode("utf-8").splitlines()))
assert lines == [m.to_json() for m in returned]
print("dump == to_json() of every returned message, one per line, in order: True")
