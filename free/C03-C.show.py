"""show_C: which timestamp does a reassembled fast-packet message carry?

Seven frames of one 43-byte message (PGN 129029) are fed in order, each logged 10 ms after the
previous one. Prints what the decoder returns per frame and the timestamp of the resulting message
(last frame's time on the clean tree, first frame's time on the changed tree). Always exits 0."""
import logging
import time
from nmea2000.decoder import NMEA2000Decoder
from nmea2000.encoder import NMEA2000Encoder

logging.disable(logging.CRITICAL)

DATA = ["00,2f,e7,95,3d,00,73,d6", "01,29,00,da,04,73,db,c9", "02,e5,05,80,7d,02,28,5f",
        "03,d6,10,f6,9b,50,6c,05", "04,00,00,00,00,13,fc,08", "05,6f,00,be,00,dd,f2,ff",
        "06,ff,00,ff,ff,ff,ff,ff"]
LINES = [f"2022-09-28-11:36:59.{600 + 10 * i:03d},3,129029,0,255,8,{d}" for i, d in enumerate(DATA)]

decoder = NMEA2000Decoder()
msg = None
for i, line in enumerate(LINES):
    msg = decoder.decode_basic_string(line)
    print(f"frame {i} logged at {line.split(',')[0]} -> {'None' if msg is None else 'message PGN %d' % msg.PGN}")
    assert (msg is None) == (i < len(LINES) - 1)
print("timestamp of the reassembled message:", msg.timestamp.isoformat())
print("  first frame was logged at           2022-09-28T11:36:59.600000")
print("  last frame was logged at            2022-09-28T11:36:59.660000")
print("latitude/longitude decoded:", msg.fields[3].value, msg.fields[4].value)

# same through the gateway path (decode_tcp stamps each frame with the wall clock)
packets = NMEA2000Encoder().encode_ebyte(msg)
out, seen = None, []
for p in packets:
    time.sleep(0.02)
    before = time.time()
    out = decoder.decode_tcp(p)
    seen.append(before)
assert out is not None and [f.raw_value for f in out.fields] == [f.raw_value for f in msg.fields]
age_first = out.timestamp.timestamp() - seen[0]
age_last = out.timestamp.timestamp() - seen[-1]
print(f"decode_tcp, {len(packets)} frames 20 ms apart: message timestamp is "
      f"{'the FIRST' if abs(age_first) < abs(age_last) else 'the LAST'} frame's arrival time "
      f"(offset to first {age_first * 1000:+.0f} ms, to last {age_last * 1000:+.0f} ms)")
