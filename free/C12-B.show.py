"""show_B: where does the DISCONNECTED notification fall relative to the last messages?

A Yacht Devices gateway sends 5 valid lines and then drops the connection. The receive callback
needs 50 ms per message. We print the order in which the application sees its callbacks. On both
trees the five messages arrive once each and in wire order; what differs is the position of the
status notification (and therefore the moment the reconnect starts).
"""
import asyncio
import logging

from nmea2000.decoder import NMEA2000Decoder
from nmea2000.ioclient import YachtDevicesNmea2000Gateway, State

logging.disable(logging.CRITICAL)

N = 5


def line(i: int) -> str:
    return f"00:01:54.430 R 15F11910 {i:02X} 00 00 E5 0B 1D FF FF"


async def main() -> int:
    client = YachtDevicesNmea2000Gateway("127.0.0.1", 1)
    events = []
    reconnects = []

    async def never_connects():
        reconnects.append(len(events))
        await asyncio.Event().wait()

    client._connect_impl = never_connects  # the gateway stays away after the drop
    client._state = State.CONNECTED

    async def on_message(msg):
        await asyncio.sleep(0.05)
        events.append(f"message sid={msg.fields[0].value}")

    async def on_status(state):
        events.append(f"status {state.name}")

    client.set_receive_callback(on_message)
    client.set_status_callback(on_status)

    reader = asyncio.StreamReader()
    client.reader = reader
    reader.feed_data("".join(line(i) + "\r\n" for i in range(N)).encode())
    reader.feed_eof()
    client._receive_task = asyncio.create_task(client._receive_loop())

    for _ in range(100):
        if len(events) >= N + 1:
            break
        await asyncio.sleep(0.02)

    for e in events:
        print(e)
    print(f"reconnect attempt started after {reconnects[0] if reconnects else '?'} of these events")

    reference = NMEA2000Decoder()
    expected = [f"message sid={reference.decode_yacht_devices_string(line(i)).fields[0].value}" for i in range(N)]
    delivered = [e for e in events if e.startswith("message")]
    print(f"messages equal to the reference decoder's, in order, once each: {delivered == expected}")
    await client.close()
    return 0 if delivered == expected else 1


if __name__ == "__main__":
    raise SystemExit(asyncio.run(main()))
