"""show_C: when do dump records reach the dump file?

Clean tree  : records sit in the process' write buffer; the file is empty until close() (or until
              8 KiB have accumulated). No counter.
Changed tree: each record is in the file as soon as the decode call that returned the message is over;
              decoder.dump_count says how many records were written.
On both trees, once the decoder is closed, the file holds exactly to_json() of every returned message
that matches the filter, one per line, in order.
"""
import os
import tempfile

from nmea2000.decoder import NMEA2000Decoder

FRAMES = [
    "A000057.055 09FF7 0FF00 3F9FDCFFFFFFFFFF",                                  # 65280, matches by number
    "2022-09-10T12:10:17.000Z,5,130312,5,255,8,01,00,01,b8,74,ff,ff,ff",         # temperature, matches by id
    "2012-06-17-15:02:11.000,6,59904,0,255,3,14,f0,01",                          # isoRequest, not in the filter
    "A000058.055 09FF7 0FF00 3F9FDCFFFFFFFFFF",                                  # 65280 again
]

def lines_on_disk(path):
    with open(path, "r", encoding="utf-8") as f:
        return f.read().split("\n")[:-1]

path = os.path.join(tempfile.mkdtemp(prefix="show_C_"), "dump.jsonl")
decoder = NMEA2000Decoder(dump_to_file=path, dump_pgns=[65280, "Temperature"])
expected = []
for frame in FRAMES:
    if frame.startswith("A"):
        msg = decoder.decode_actisense_string(frame)
    else:
        msg = decoder.decode_basic_string(frame)
    assert msg is not None
    if msg.PGN == 65280 or msg.id.lower() == "temperature":
        expected.append(msg.to_json())
    print("returned PGN %-6d %-45s records on disk now: %d   dump_count: %s" % (
        msg.PGN, msg.id, len(lines_on_disk(path)), getattr(decoder, "dump_count", "n/a")))

decoder.close()
final = lines_on_disk(path)
print("after close(): records on disk: %d, expected: %d" % (len(final), len(expected)))
assert final == expected
print("file == to_json() of every returned matching message, one per line, in order: True")
