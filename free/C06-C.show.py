"""show_C: what the Waveshare (USB) receive path does with 20 bytes that fail their checksum.

Three ISO Request messages from sources 1, 2, 3 are encoded. The serial stream loses the tail of the first
packet (only its first 11 bytes arrive), packets 2 and 3 arrive intact. The stream is pushed through the
real WaveShareNmea2000Gateway._receive_impl in several chunkings and the sources of the delivered messages
are printed. A clean concatenation of the three packets is shown too (same on both trees). Exits 0 on both trees.
"""
import asyncio
import logging

from nmea2000.decoder import NMEA2000Decoder
from nmea2000.encoder import NMEA2000Encoder
from nmea2000.ioclient import WaveShareNmea2000Gateway

logging.disable(logging.CRITICAL)

d = NMEA2000Decoder()
pkts = []
for src in (1, 2, 3):
    msg = d.decode_basic_string(f"2012-06-17-15:02:11.000,6,59904,{src},255,3,14,f0,01")
    pkts.append(NMEA2000Encoder().encode_usb(msg)[0])


class Reader:
    def __init__(self, data, chunk):
        self.data = data
        self.chunk = chunk

    async def read(self, n):
        n = min(n, self.chunk)
        chunk, self.data = self.data[:n], self.data[n:]
        return chunk


async def run(stream, chunk):
    client = WaveShareNmea2000Gateway("port")
    client._process_queue_task.cancel()
    client._buffer = bytearray()
    client.reader = Reader(stream, chunk)
    seen = []
    orig = client.decoder.decode_usb

    def spy(packet):
        seen.append(bytes(packet).hex())
        return orig(packet)

    client.decoder.decode_usb = spy
    try:
        while True:
            await client._receive_impl()
    except ConnectionError:
        pass
    sources = []
    while not client.queue.empty():
        sources.append(client.queue.get_nowait().source)
    return sources, seen


async def main():
    clean = b"".join(pkts)
    damaged = pkts[0][:11] + pkts[1] + pkts[2]
    for chunk in (100, 20, 7, 1):
        sources, seen = await run(clean, chunk)
        print(f"clean concatenation, reads of {chunk:3d}: packets given to the decoder == encoder packets:",
              seen == [p.hex() for p in pkts], "- delivered sources", sources)
    for chunk in (100, 20, 7, 1):
        sources, seen = await run(damaged, chunk)
        print(f"first packet truncated,  reads of {chunk:3d}: delivered sources", sources,
              "- 20-byte windows given to the decoder:", len(seen))


asyncio.run(main())
