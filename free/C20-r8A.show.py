"""show_A: how much one read of the serial client takes from the port.

clean tree : every read asks for at most 100 bytes -> 1000 queued bytes need 10 reads, 5 packets each
changed    : every read asks for read_size (default 4096) bytes -> the same 1000 bytes are drained by
             one read that yields all 50 packets; read_size=100 gives the old behaviour back.
Run: cd /tmp/w8/C20 && PYTHONPATH=/tmp/w8/C20 /venv/bin/python _out/show_A.py
"""
import asyncio
import inspect
import logging

from nmea2000.ioclient import WaveShareNmea2000Gateway
from nmea2000.utils import calculate_canbus_checksum

logging.disable(logging.CRITICAL)


def packet(i):
    frame_id = (2 << 26) | (127251 << 8) | 7
    p = bytearray(b"\xaa\x55\x01\x02\x01" + frame_id.to_bytes(4, "little") + b"\x08"
                  + b"\xff\xff\xff\x00" + (i + 1).to_bytes(3, "big") + b"\x01" + b"\x00")
    p.append(calculate_canbus_checksum(p))
    return bytes(p)


class SpyReader:
    """1000 bytes are already waiting in the driver; read(n) hands out at most n of them."""
    def __init__(self, data):
        self.data = data
        self.asked = []

    async def read(self, n):
        self.asked.append(n)
        out, self.data = self.data[:n], self.data[n:]
        return out


async def drain(**kw):
    client = WaveShareNmea2000Gateway(port="/dev/null", **kw)
    delivered = []

    async def cb(msg):
        delivered.append(msg)
    client.set_receive_callback(cb)
    client.reader = SpyReader(b"".join(packet(i) for i in range(50)))
    client._buffer = bytearray()
    per_read = []
    while client.reader.data:
        before = client.queue.qsize() + len(delivered)
        await client._receive_impl()
        await client.queue.join()
        per_read.append(len(delivered) - before)
    await client.close()
    print(f"  sizes asked from the port : {sorted(set(client.reader.asked))}")
    print(f"  reads needed for 1000 B   : {len(per_read)}")
    print(f"  packets delivered per read: {per_read}   (total {len(delivered)})")
    assert len(delivered) == 50


async def main():
    has_kw = "read_size" in inspect.signature(WaveShareNmea2000Gateway.__init__).parameters
    print("constructor has read_size keyword:", has_kw)
    print("default client:")
    await drain()
    if has_kw:
        print("client with read_size=100:")
        await drain(read_size=100)

asyncio.run(main())
