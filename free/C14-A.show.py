"""show_A: what happens to messages that were already received when close() is called.

A local gateway sends 5 Yacht Devices lines in one burst. The receive callback needs 50 ms per
message; close() is called while the first callback is running.
Prints how many callbacks ran / completed before close() returned and how many ran afterwards.
"""
import asyncio
import time

from nmea2000.ioclient import YachtDevicesNmea2000Gateway, State

LINE = b"00:01:54.430 R 15F11910 00 00 00 E5 0B 1D FF FF\r\n"
N = 5


async def main():
    async def handle(reader, writer):
        writer.write(LINE * N)
        await writer.drain()
        try:
            await reader.read()  # until the client hangs up
        finally:
            writer.close()

    server = await asyncio.start_server(handle, "127.0.0.1", 0)
    port = server.sockets[0].getsockname()[1]

    client = YachtDevicesNmea2000Gateway("127.0.0.1", port)
    client.seed_network_map = False
    started, finished, states_seen = [], [], []
    first_started = asyncio.Event()
    closed_returned = False
    after_close = 0

    async def on_message(msg):
        nonlocal after_close
        if closed_returned:
            after_close += 1
        started.append(msg.PGN)
        states_seen.append(client.state)
        first_started.set()
        await asyncio.sleep(0.05)
        finished.append(msg.PGN)

    statuses = []

    async def on_status(state):
        statuses.append(state)

    client.set_receive_callback(on_message)
    client.set_status_callback(on_status)
    await client.connect()
    await asyncio.wait_for(first_started.wait(), 5)
    while client.queue.qsize() < N - 1:  # the rest of the burst is decoded and waiting
        await asyncio.sleep(0.001)

    t0 = time.monotonic()
    await client.close()
    elapsed = time.monotonic() - t0
    closed_returned = True
    n_started, n_finished = len(started), len(finished)
    await asyncio.sleep(0.3)  # anything that would still run after close() returned shows up here

    print(f"messages sent by the gateway            : {N}")
    print(f"receive callbacks started before return : {n_started}")
    print(f"receive callbacks completed before return: {n_finished}")
    print(f"callbacks that ran with state CLOSED    : {sum(1 for s in states_seen if s == State.CLOSED)}")
    print(f"close() took                            : {elapsed * 1000:.0f} ms")
    print(f"receive callbacks after close() returned: {after_close + len(started) - n_started}")
    print(f"state after close()                     : {client.state}")
    print(f"status notifications                    : {[s.name for s in statuses]}")
    print(f"background tasks finished               : {client._process_queue_task.done() and client._receive_task.done()}")
    print(f"link shut                               : {client.writer.is_closing()}")
    server.close()
    await server.wait_closed()


asyncio.run(main())
