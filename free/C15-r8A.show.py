"""show_A: which top-level keys does to_json() write for a message without source identity / hash?
Runs on the clean and on the changed tree (exit 0 on both); prints the difference."""
import json
from nmea2000.decoder import NMEA2000Decoder
from nmea2000.encoder import NMEA2000Encoder
from nmea2000.message import NMEA2000Message

dec = NMEA2000Decoder()
msg = dec.decode_actisense_string("A000057.055 09FF7 0FF00 3F9FDCFFFFFFFFFF")
text = msg.to_json()
data = json.loads(text)                      # valid JSON
print("length of JSON text :", len(text))
print("top-level keys      :", list(data))
for k in ("ttl", "source_iso_name", "hash", "raw_can_data"):
    print(f"  key {k!r:20} present: {k in data}")

# the round trip the property talks about
back = NMEA2000Message.from_json(text)
same = (back.PGN, back.id, back.source, back.destination, back.priority) == \
       (msg.PGN, msg.id, msg.source, msg.destination, msg.priority)
same_fields = [(f.id, f.value, f.raw_value) for f in back.fields] == \
              [(f.id, f.value, f.raw_value) for f in msg.fields]
enc = NMEA2000Encoder()
same_bytes = enc.encode_ebyte(back) == enc.encode_ebyte(msg)
print("parsed back: header same =", same, "| fields same =", same_fields, "| encodes to same bytes =", same_bytes)
print("parsed back: hash =", back.hash, "| source_iso_name =", back.source_iso_name)
assert same and same_fields and same_bytes
if "hash" in data:
    print("RESULT: unset optional attributes are written as null (old behaviour)")
else:
    print("RESULT: unset optional attributes are left out of the JSON text (new behaviour)")
