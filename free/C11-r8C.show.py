"""show_C: which clock measures the 10 minute discovery window of build_network_map=True?
The wall clock (datetime.now) and the monotonic clock (time.monotonic) are moved independently."""
import logging
import time
from datetime import datetime, timedelta
import nmea2000.decoder as dec
from nmea2000.decoder import NMEA2000Decoder

logging.disable(logging.CRITICAL)

CLAIM_5 = "2022-09-10T12:10:16.614Z,6,60928,5,255,8,fb,9b,70,22,00,9b,50,c0"
DATA = "2021-01-30-20:43:21.684,6,126998,%d,255,19,07,01,68,65,6C,6C,6F,0c,00,77,00,F3,00,72,00,6C,00,64,00"

wall_offset = timedelta(0)
mono_offset = 0.0
_real_datetime = datetime
_real_monotonic = time.monotonic


class SteppedDatetime(datetime):
    @classmethod
    def now(cls, tz=None):
        return _real_datetime.now(tz) + wall_offset


dec.datetime = SteppedDatetime                      # the name the decoder module uses for the wall clock
time.monotonic = lambda: _real_monotonic() + mono_offset


def brief(msg):
    if msg is None:
        return "None (held back)"
    iso = msg.source_iso_name
    return f"returned, PGN {msg.PGN} src {msg.source} manufacturer={iso.manufacturer_code if iso else None}"


def scenario(title, wall_at_start, wall_step, mono_step):
    """wall_at_start: wall clock error when the decoder is created; then the wall clock is moved by
    wall_step and the monotonic clock by mono_step before an unclaimed source (7) sends data."""
    global wall_offset, mono_offset
    wall_offset, mono_offset = wall_at_start, 0.0
    d = NMEA2000Decoder(build_network_map=True)
    d.decode_basic_string(CLAIM_5, True)
    print(title)
    print("   at start : unclaimed src 7 ->", brief(d.decode_basic_string(DATA % 7, True)))
    wall_offset, mono_offset = wall_at_start + wall_step, mono_step
    print("   later    : unclaimed src 7 ->", brief(d.decode_basic_string(DATA % 7, True)))
    print("   later    : claimed   src 5 ->", brief(d.decode_basic_string(DATA % 5, True)))
    d.close()


scenario("1. 11 minutes really pass (wall +11 min, monotonic +11 min)",
         timedelta(0), timedelta(minutes=11), 11 * 60)
scenario("2. 30 s after start the wall clock is stepped FORWARD one hour by GPS/NTP (monotonic +30 s)",
         timedelta(0), timedelta(hours=1, seconds=30), 30)
scenario("3. decoder created with the wall clock one day AHEAD; clock corrected, then 11 minutes really pass",
         timedelta(days=1), timedelta(days=-1, minutes=11), 11 * 60)
scenario("4. 5 minutes really pass (inside the window on either clock)",
         timedelta(0), timedelta(minutes=5), 5 * 60)
