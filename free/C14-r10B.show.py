"""show_B: what the client does with a gateway that is connected but silent.

Two TCP "gateways": one never sends anything, the other sends an Actisense line every 0.2 s.
The watchdog time is set to 0.5 s through the class attribute idle_timeout (default on the changed
tree: 60 s; on a tree without the watchdog the attribute is simply unused), the client is left
alone for 2.2 s, then closed, and watched for another 1.5 s.

Prints the status notifications and the number of connections each gateway has seen.
Exits 0 on every tree.
"""
import asyncio
import logging

from nmea2000.ioclient import AsyncIOClient, ActisenseNmea2000Gateway

logging.basicConfig(level=logging.CRITICAL)
AsyncIOClient.idle_timeout = 0.5


async def run(name, chatty):
    accepted = []
    release = asyncio.Event()

    async def gateway(reader, writer):
        accepted.append(writer)
        try:
            while not release.is_set():
                if chatty:
                    writer.write(b"A000057.055 09FF7 0FF00 3F9FDCFFFFFFFFFF\n")
                await asyncio.sleep(0.2)
        except Exception:
            pass

    server = await asyncio.start_server(gateway, "127.0.0.1", 0)
    port = server.sockets[0].getsockname()[1]

    states, received = [], []

    async def on_status(state):
        states.append(state.name)

    async def on_message(message):
        received.append(message.PGN)

    client = ActisenseNmea2000Gateway("127.0.0.1", port)
    client.set_status_callback(on_status)
    client.set_receive_callback(on_message)
    await client.connect()
    await asyncio.sleep(2.2)
    print(f"{name}:")
    print(f"  status notifications in 2.2 s : {states}")
    print(f"  connections the gateway saw   : {len(accepted)}   messages delivered: {len(received)}")
    await client.close()
    n_states, n_conn, n_msg = len(states), len(accepted), len(received)
    await asyncio.sleep(1.5)
    print(f"  after close()                 : state {client.state.name}, notifications {states[n_states - 1:]}, "
          f"new connections {len(accepted) - n_conn}, new messages {len(received) - n_msg}, "
          f"background tasks finished {client._receive_task.done() and client._process_queue_task.done()}")

    release.set()
    for w in accepted:
        w.transport.abort()
    server.close()
    await asyncio.sleep(0.3)


async def main():
    await run("silent gateway", chatty=False)
    await run("gateway sending a frame every 0.2 s", chatty=True)


asyncio.run(main())
