"""Change A: filter arguments are accepted more liberally.

Prints how the decoder reacts to filter configurations that lie OUTSIDE the quantifier of C10
(both lists at once, a tuple instead of a list, None, PGN numbers given as text).
Exits 0 on the clean and on the changed tree; the printed lines differ.
"""
import logging

from nmea2000.decoder import NMEA2000Decoder

logging.disable(logging.CRITICAL)

WIND = "2022-09-10T12:10:16.614Z,2,130306,7,255,8,00,10,00,20,30,02,ff,ff"      # windData, single frame
PROP = "A000057.055 09FF7 0FF00 3F9FDCFFFFFFFFFF"                               # PGN 65280, single frame
CLAIM = "2022-09-10T12:10:16.614Z,6,60928,7,255,8,fb,9b,70,22,00,9b,50,c0"      # isoAddressClaim


def attempt(label, **kw):
    try:
        dec = NMEA2000Decoder(**kw)
    except Exception as e:
        print(f"{label:58s} -> constructor raised {type(e).__name__}: {e}")
        return
    out = []
    for name, fn, line in (("claim", dec.decode_basic_string, CLAIM),
                           ("wind", dec.decode_basic_string, WIND),
                           ("65280", dec.decode_actisense_string, PROP)):
        m = fn(line)
        out.append(f"{name}={'-' if m is None else m.id}")
    print(f"{label:58s} -> {' '.join(out)}  source map={sorted(dec.source_to_iso_name)}")


attempt("no filter")
attempt("include=[130306, 65280] (inside the quantifier)", include_pgns=[130306, 65280])
attempt("include=[130306, 65280] + exclude=[65280] (both lists)", include_pgns=[130306, 65280], exclude_pgns=[65280])
attempt("include=[60928, 130306] + exclude=['ISOaddressCLAIM']", include_pgns=[60928, 130306], exclude_pgns=["ISOaddressCLAIM"])
attempt("exclude=(65280,) (tuple)", exclude_pgns=(65280,))
attempt("exclude={'windData'} (set)", exclude_pgns={"windData"})
attempt("include=None", include_pgns=None)
attempt("exclude=['65280'] (number as text)", exclude_pgns=["65280"])
attempt("include=[' 0x1FD02 '] (hex text, blanks)", include_pgns=[" 0x1FD02 "])
attempt("exclude='windData' (bare string, refused on both trees)", exclude_pgns="windData")
