"""show_B: how many fast-packet messages can be in reassembly at the same time?

clean tree  : unlimited; every (PGN, source, destination) that ever sent a fast frame - even a stray
              continuation frame - keeps a structure in decoder.data until a message completes
changed tree: at most max_fast_packet_streams (default 16) incomplete messages; starting a 17th gives up the
              least recently fed one (warning + decoder.evicted_fast_packets); stray frames allocate nothing
A message whose frames are fed in order (the situation property C03 talks about) is decoded on both trees.
"""
import logging
import sys
from nmea2000.decoder import NMEA2000Decoder

logging.basicConfig(level=logging.ERROR)  # keep the output short: the changed tree warns on every give-up

FRAMES = """00,2f,e7,95,3d,00,73,d6
01,29,00,da,04,73,db,c9
02,e5,05,80,7d,02,28,5f
03,d6,10,f6,9b,50,6c,05
04,00,00,00,00,13,fc,08
05,6f,00,be,00,dd,f2,ff
06,ff,00,ff,ff,ff,ff,ff""".splitlines()


def line(src, i):
    return "2022-09-28-11:36:59.668,3,129029,%d,255,8,%s" % (src, FRAMES[i])


dec = NMEA2000Decoder()
print("limit on this tree:", getattr(dec, "max_fast_packet_streams", "none (attribute does not exist)"))

# 1. in order, one message at a time: same on both trees
out = [dec.decode_basic_string(line(1, i)) for i in range(7)]
assert all(o is None for o in out[:-1]) and out[-1] is not None and out[-1].PGN == 129029
print("one message fed in order          : decoded, decoder.data has %d entries afterwards" % len(dec.data))

# 2. a stray continuation frame (its first frame was never seen)
assert dec.decode_basic_string(line(99, 3)) is None
print("after one stray continuation frame: decoder.data has %d entries" % len(dec.data))

# 3. 20 sources interleave their messages frame by frame
dec = NMEA2000Decoder()
SOURCES = list(range(1, 21))
done = []
for i in range(7):
    for src in SOURCES:
        m = dec.decode_basic_string(line(src, i))
        if m is not None:
            assert i == 6
            done.append(m.source)
print("20 interleaved messages           : %d decoded (sources %s)" % (len(done), done))
print("given up (evicted_fast_packets)   :", getattr(dec, "evicted_fast_packets", "n/a"))

# 4. the limit is a constructor keyword on the changed tree
try:
    dec = NMEA2000Decoder(max_fast_packet_streams=None)
    done = []
    for i in range(7):
        for src in SOURCES:
            m = dec.decode_basic_string(line(src, i))
            if m is not None:
                done.append(m.source)
    print("max_fast_packet_streams=None      : %d of 20 decoded" % len(done))
except TypeError as e:
    print("max_fast_packet_streams=None      : keyword not known on this tree (%s)" % e)
sys.exit(0)
