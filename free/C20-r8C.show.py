"""show_C: what NMEA2000Decoder.decode_usb() does with a damaged packet.

clean tree : wrong checksum -> logs a warning, returns None (same as "filtered out");
             wrong length   -> logs a warning, returns None;  wrong header -> bare Exception
changed    : all three raise decoder.UsbPacketError (a ValueError); None now only means "good packet,
             nothing to deliver".  The serial client catches it: nothing is delivered either way.
Run: cd /tmp/w8/C20 && PYTHONPATH=/tmp/w8/C20 /venv/bin/python _out/show_C.py
"""
import asyncio
import logging

from nmea2000.decoder import NMEA2000Decoder
from nmea2000.ioclient import WaveShareNmea2000Gateway
from nmea2000.utils import calculate_canbus_checksum


def packet(i):
    frame_id = (2 << 26) | (127251 << 8) | 7
    p = bytearray(b"\xaa\x55\x01\x02\x01" + frame_id.to_bytes(4, "little") + b"\x08"
                  + b"\xff\xff\xff\x00" + (i + 1).to_bytes(3, "big") + b"\x01" + b"\x00")
    p.append(calculate_canbus_checksum(p))
    return bytes(p)


class Capture(logging.Handler):
    def __init__(self):
        super().__init__(logging.WARNING)
        self.lines = []

    def emit(self, record):
        self.lines.append(f"{record.levelname} {record.name}: {record.getMessage()[:90]}"
                          + (" [+traceback]" if record.exc_info else ""))


class Reader:
    def __init__(self, chunks):
        self.chunks = list(chunks)

    async def read(self, n):
        return self.chunks.pop(0) if self.chunks else b""


def try_decode(decoder, label, data):
    try:
        r = decoder.decode_usb(data)
        print(f"  {label:15s}-> returned {'a message' if r is not None else None}")
    except Exception as e:
        print(f"  {label:15s}-> raised {type(e).__module__}.{type(e).__name__} (ValueError: {isinstance(e, ValueError)}): {str(e)[:60]}")


async def main():
    cap = Capture()
    root = logging.getLogger("nmea2000")
    root.addHandler(cap)
    root.propagate = False

    bad = bytearray(packet(3))
    bad[12] ^= 0x10
    d = NMEA2000Decoder(exclude_pgns=[127251])
    print("decode_usb() called directly:")
    try_decode(NMEA2000Decoder(), "good packet", packet(1))
    try_decode(d, "excluded PGN", packet(1))
    try_decode(d, "wrong checksum", bytes(bad))
    try_decode(d, "19 bytes", packet(1)[:19])
    try_decode(d, "wrong header", b"\x00" + packet(1)[1:])
    cap.lines.clear()

    client = WaveShareNmea2000Gateway(port="/dev/null")
    got = []

    async def cb(msg):
        got.append(msg)
    client.set_receive_callback(cb)
    client.reader = Reader([packet(1) + bytes(bad) + packet(2)])
    client._buffer = bytearray()
    try:
        while True:
            await client._receive_impl()
    except ConnectionError:
        pass
    await client.queue.join()
    await client.close()
    print("serial client, stream = good, corrupted, good:")
    print("  packets delivered:", len(got))
    for line in cap.lines:
        print("  log:", line)
    assert len(got) == 2

asyncio.run(main())
