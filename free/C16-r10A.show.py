"""show_A: a first frame that re-uses the sequence counter of the still incomplete message.

Message M1 (PGN 129029, sequence counter 0, SID 231) loses its frames 3..6.
Message M2 (same PGN/source/destination, the 3 bit sequence counter has wrapped around to 0 again,
SID 17) then arrives completely.

clean tree  : M2's first frame is taken for a duplicate of M1's first frame and dropped, so the
              message that comes out is M1's head glued to M2's tail (SID 231).
changed tree: M2's first frame differs from the stored one, so it starts a new message (SID 17).

In both trees an identical retransmission of the first frame is still a harmless duplicate, and a
probe message with a fresh sequence counter decodes the same after this history as on a new decoder.
"""
import logging
from nmea2000.decoder import NMEA2000Decoder

logging.disable(logging.CRITICAL)

PREFIX = "2022-09-28-11:36:59.668,3,129029,0,255,8,"
M = [
    "2f,e7,95,3d,00,73,d6",   # frame 0: announced length 0x2f, SID 0xe7, ...
    "29,00,da,04,73,db,c9",
    "e5,05,80,7d,02,28,5f",
    "d6,10,f6,9b,50,6c,05",
    "00,00,00,00,13,fc,08",
    "6f,00,be,00,dd,f2,ff",
    "ff,00,ff,ff,ff,ff,ff",
]


def frames(seq, sid=None):
    out = []
    for i, body in enumerate(M):
        if i == 0 and sid is not None:
            body = body.replace("2f,e7", "2f,%02x" % sid)
        out.append(PREFIX + "%02x," % ((seq << 5) | i) + body)
    return out


def feed(dec, lines):
    res = []
    for line in lines:
        msg = dec.decode_basic_string(line)
        res.append(None if msg is None else "SID=%s" % msg.fields[0].value)
    return res


dec = NMEA2000Decoder()
print("M1 frames 0..2 (seq 0, SID 231)      ->", feed(dec, frames(0)[:3]))
r = feed(dec, frames(0, sid=17))
print("M2 frames 0..6 (seq 0 again, SID 17) ->", r)
got = [x for x in r if x is not None]
if got == ["SID=231"]:
    print("BEHAVIOUR: M2's first frame was dropped as a duplicate; output mixes M1's head with M2's tail (clean tree)")
elif got == ["SID=17"]:
    print("BEHAVIOUR: M2's differing first frame started a new message; output is M2 (changed tree)")
else:
    print("BEHAVIOUR: other:", got)

# identical retransmission of the first frame: a duplicate in both trees
dec2 = NMEA2000Decoder()
f = frames(0)
print("identical first frame repeated        ->", feed(dec2, f[:3] + [f[0]] + f[3:]))

# the property: a probe with a fresh sequence counter after the history == on a new decoder
probe = frames(1, sid=99)
dec3 = NMEA2000Decoder()
feed(dec3, frames(0)[:3] + frames(0, sid=17)[:2])
after = [None if m is None else m.to_string_test_style() for m in map(dec3.decode_basic_string, probe)]
fresh_dec = NMEA2000Decoder()
fresh = [None if m is None else m.to_string_test_style() for m in map(fresh_dec.decode_basic_string, probe)]
print("probe (seq 1) after history == probe on a new decoder:", after == fresh, "| decoded:", after[-1] is not None)
