"""show_C: an ECAN gateway whose connection slots are all taken answers a new TCP client with the
13 bytes 'Sorry,Limited'. The program prints the time line of what the client does then:
status notifications, client.state during the 30 s waiting period, when the gateway sees the
client hang up, and when the client dials again (the second connection is served normally).

The 30 s wait is shortened to 1.5 s for the show (asyncio.sleep is wrapped: >= 30 s -> 1.5 s).
Exits 0 on both the clean and the changed tree.
"""
import asyncio
import logging
import sys
import time

_orig_sleep = asyncio.sleep


async def _short_sleep(delay, *args, **kwargs):
    return await _orig_sleep(1.5 if delay >= 30 else delay, *args, **kwargs)

asyncio.sleep = _short_sleep

from nmea2000.ioclient import EByteNmea2000Gateway, State  # noqa: E402

from nmea2000.encoder import NMEA2000Encoder  # noqa: E402
from nmea2000.message import NMEA2000Message  # noqa: E402

ISO_REQUEST = '{"PGN":59904,"id":"isoRequest","description":"ISO Request","fields":[{"id":"pgn","name":"PGN","description":null,"unit_of_measurement":null,"value":60928,"raw_value":60928,"physical_quantities":null,"type":[13],"part_of_primary_key":false}],"source":0,"destination":255,"priority":6,"timestamp":"2012-06-17T15:02:11","source_iso_name":null,"hash":null}'
FRAME = NMEA2000Encoder().encode_ebyte(NMEA2000Message.from_json(ISO_REQUEST))[0]  # one 13 bytes frame


class Collect(logging.Handler):
    def __init__(self):
        super().__init__(logging.WARNING)
        self.records = []

    def emit(self, record):
        self.records.append((record.levelname, record.getMessage().splitlines()[0][:100]))


async def main():
    collector = Collect()
    log = logging.getLogger("nmea2000.ioclient")
    log.addHandler(collector)
    log.propagate = False

    t0 = time.monotonic()
    timeline = []

    def mark(what):
        timeline.append((time.monotonic() - t0, what))

    connections = [0]

    async def on_client(reader, writer):
        connections[0] += 1
        k = connections[0]
        mark(f"gateway: connection #{k} accepted")
        if k == 1:
            writer.write(b"Sorry,Limited")
            await writer.drain()
            mark("gateway: said 'Sorry,Limited' on #1")
            try:
                await reader.read()          # returns when the client hangs up
            except Exception:
                pass
            mark("gateway: client hung up #1 (slot free again)")
            writer.close()
        else:
            writer.write(FRAME)
            await writer.drain()
            try:
                await reader.read()
            except Exception:
                pass
            writer.close()

    server = await asyncio.start_server(on_client, "127.0.0.1", 0)
    port = server.sockets[0].getsockname()[1]

    async def on_status(state):
        mark(f"client: status callback {state.name}")

    got = []

    async def on_message(message):
        got.append(message.PGN)
        mark(f"client: frame delivered (PGN {message.PGN})")

    client = EByteNmea2000Gateway("127.0.0.1", port)
    client.set_status_callback(on_status)
    client.set_receive_callback(on_message)
    await client.connect()
    await _orig_sleep(0.75)
    mark(f"client: state in the middle of the waiting period = {client.state.name}")
    for _ in range(500):
        if connections[0] >= 2 and client.state == State.CONNECTED and got:
            break
        await _orig_sleep(0.01)
    await _orig_sleep(0.1)
    for t, what in sorted(timeline):
        print(f"  {t:5.2f} s  {what}")
    print("  log records (WARNING and above):")
    for rec in collector.records:
        print("     ", rec)
    print(f"  final state: {client.state.name}; busy_retry_delay = {getattr(client, 'busy_retry_delay', '<no such attribute>')}")
    await client.close()
    server.close()
    await server.wait_closed()


if __name__ == "__main__":
    try:
        asyncio.run(main())
    except Exception as e:  # the show must not fail
        print("show_C: unexpected", type(e).__name__, e)
    sys.exit(0)
