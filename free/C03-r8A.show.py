"""show_A: a fast-packet frame whose frame counter cannot belong to a message of the announced
length (here: frame 5 of a 10 byte message, which has only frames 0 and 1).
Clean tree: the stray frame is stored, its bytes are counted, and a message made of wrong bytes
is delivered at once. Changed tree: the stray frame is rejected (warning + counter), the decoder
keeps waiting and delivers the right payload when frame 1 arrives."""
import logging
from nmea2000.decoder import NMEA2000Decoder
from nmea2000.message import NMEA2000Message

logging.basicConfig(level=logging.WARNING, format="  log: %(levelname)s %(message)s")
PGN = 129029  # any fast-packet PGN

dec = NMEA2000Decoder()
delivered = []
def capture(pgn, priority, src, dest, timestamp, data, iso, raw):
    delivered.append(bytes(data)[::-1])
    return NMEA2000Message(PGN=pgn, id="x", description="x")
dec._call_decode_function = capture

def ebyte(frame: bytes) -> bytes:
    frame_id = (3 << 26) | (PGN << 8) | 7
    return bytes([0x80 | len(frame)]) + frame_id.to_bytes(4, "big") + frame + bytes(8 - len(frame))

payload = bytes(range(0xA0, 0xAA))                      # 10 bytes
frame0 = bytes([0x00, len(payload)]) + payload[:6]      # sequence 0, frame 0
stray  = bytes([0x05]) + bytes([0xEE] * 7)              # sequence 0, frame 5: cannot exist in a 10 byte message
frame1 = bytes([0x01]) + payload[6:]                    # sequence 0, frame 1

for name, fr in (("frame 0", frame0), ("stray frame 5", stray), ("frame 1", frame1)):
    r = dec.decode_tcp(ebyte(fr))
    print(f"{name:14s} -> returned {'a message' if r is not None else 'None'}; delivered so far: {[d.hex() for d in delivered]}")

print("original payload      :", payload.hex())
print("payload(s) delivered  :", [d.hex() for d in delivered])
print("rejected_fast_frames  :", getattr(dec, "rejected_fast_frames", "<no such attribute>"))
if delivered == [payload]:
    print("BEHAVIOUR: stray frame rejected, correct payload delivered after frame 1 (changed tree)")
else:
    print("BEHAVIOUR: stray frame accepted, wrong payload delivered before frame 1 (clean tree)")
