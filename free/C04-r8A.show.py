"""show_A: a frame whose frame counter lies beyond the announced length of the message in progress.

The history below is OUTSIDE the quantifier of C04 (a stale duplicate of a frame of the message two
messages earlier turns up in the middle of a later message that re-uses the same sequence counter).
Clean tree : the stale frame is stored, the byte count reaches the announced length and a payload that
             was never sent is returned; the real message is then lost.
Changed    : the stale frame is ignored (a 13 bytes message has only frames 0 and 1); the real message is
             returned intact when its own last frame arrives.
Exits 0 on both trees.
"""
from nmea2000.decoder import NMEA2000Decoder
from nmea2000.encoder import NMEA2000Encoder

PGN, PRIO, SRC, DST = 127496, 5, 7, 255  # "Trip Parameters, Vessel": decodes any bytes


class Tap(NMEA2000Decoder):
    """Decoder that also remembers the payload handed to the PGN decoding function."""
    def __init__(self):
        super().__init__()
        self.payloads = []

    def _call_decode_function(self, pgn, priority, src, dest, timestamp, data, *a, **kw):
        self.payloads.append(bytes(data[::-1]))  # back to bus order
        return super()._call_decode_function(pgn, priority, src, dest, timestamp, data, *a, **kw)


def frames(seq, payload):
    """Fast packet frames (8 data bytes each, 0xFF padded) of one message."""
    out, chunks = [], [payload[:6]] + [payload[i:i + 7] for i in range(6, len(payload), 7)]
    for n, chunk in enumerate(chunks):
        head = bytes([(seq << 5) | n]) + (bytes([len(payload)]) if n == 0 else b"")
        out.append((head + chunk).ljust(8, b"\xff"))
    return out


def packet(data8):
    frame_id = NMEA2000Encoder._build_header(PGN, SRC, DST, PRIO)
    return bytes([0x88]) + frame_id.to_bytes(4, "big") + data8


def main():
    m1 = bytes(range(0x10, 0x10 + 34))      # seq 0, 34 bytes -> frames 0..4
    m2 = bytes(range(0x40, 0x40 + 13))      # seq 1, 13 bytes -> frames 0..1
    m3 = bytes(range(0xA0, 0xA0 + 13))      # seq 0 again, 13 bytes -> frames 0..1
    f1, f2, f3 = frames(0, m1), frames(1, m2), frames(0, m3)
    history = ([("M1", f) for f in f1] + [("M2", f) for f in f2] +
               [("M3", f3[0]), ("stale M1 frame 4", f1[4]), ("M3", f3[1])])

    dec = Tap()
    for label, f in history:
        before = len(dec.payloads)
        dec.decode_tcp(packet(f))
        got = dec.payloads[before:]
        print(f"{label:18s} {f.hex()} -> {'message, payload ' + got[0].hex() if got else 'None'}")

    sent = {m1: "M1", m2: "M2", m3: "M3"}
    print()
    for p in dec.payloads:
        print("returned payload", p.hex(), "=", sent.get(p, "NOT A PAYLOAD THAT WAS SENT"))
    if m3 in dec.payloads:
        print("=> the out-of-range frame was ignored and M3 came out intact (changed tree)")
    else:
        print("=> the out-of-range frame completed M3 by byte count; M3 itself was lost (clean tree)")


if __name__ == "__main__":
    main()
