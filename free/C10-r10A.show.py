"""show_A: include_manufacturer_code and sources that have not identified themselves yet.

Prints what a decoder with include_manufacturer_code=["Navico"] returns for traffic of a source
before / after its ISO address claim, and then checks property C10 (PGN filter = pure selection of
the output of the same decoder without PGN filter, equal source maps) on the same history.
Exits 0 on the clean and on the changed tree.
"""
import logging
from nmea2000.decoder import NMEA2000Decoder

logging.disable(logging.CRITICAL)
TS = "2022-09-10T12:10:16.614Z"
NAVICO = "fb,9b,70,22,00,9b,50,c0"
VICTRON = "f5,01,c0,2c,ef,aa,46,c0"
CONFIG_INFO = "07,01,68,65,6C,6C,6F,0c,00,77,00,F3,00,72,00,6C,00,64,00".split(",")


def single(pgn, src, data, prio=2, dest=255):
    return f"{TS},{prio},{pgn},{src},{dest},{len(data.split(','))},{data}"


def claim(src, name):
    return single(60928, src, name, prio=6)


def fast(pgn, src, payload, seq, prio=6, dest=255):
    """split a payload (list of hex bytes) into fast-packet frames, basic-string lines"""
    frames = []
    rest = list(payload)
    first = [f"{(seq << 5):02x}", f"{len(payload):02x}"] + rest[:6]
    rest = rest[6:]
    frames.append(first)
    n = 1
    while rest:
        chunk = rest[:7]
        rest = rest[7:]
        chunk = chunk + ["ff"] * (7 - len(chunk))
        frames.append([f"{(seq << 5) | n:02x}"] + chunk)
        n += 1
    return [f"{TS},{prio},{pgn},{src},{dest},8,{','.join(f)}" for f in frames]


def heading(src):
    return single(127250, src, "00,10,27,ff,7f,ff,7f,fd")


def wind(src):
    return single(130306, src, "00,10,01,20,30,fa,ff,ff")


def key(m):
    if m is None:
        return None
    return (m.PGN, m.id, m.source, m.destination, m.priority,
            tuple((f.id, f.raw_value, str(f.value)) for f in m.fields),
            None if m.source_iso_name is None else m.source_iso_name.name)


def run(history, **kw):
    d = NMEA2000Decoder(**kw)
    out = []
    for line in history:
        try:
            out.append(key(d.decode_basic_string(line)))
        except Exception as e:  # an exception is "no message at this position"
            out.append(None)
    smap = {s: n.name for s, n in d.source_to_iso_name.items()}
    return out, smap


def permitted(k, exclude=(), include=()):
    pgn, id_ = k[0], k[1].lower()
    ex_n = {e for e in exclude if isinstance(e, int)}
    ex_i = {e.lower() for e in exclude if isinstance(e, str)}
    in_n = {e for e in include if isinstance(e, int)}
    in_i = {e.lower() for e in include if isinstance(e, str)}
    if pgn in ex_n or id_ in ex_i:
        return False
    if include and pgn not in in_n and id_ not in in_i:
        return False
    return True


def check_property(history, common_kw):
    ok = True
    configs = [
        dict(exclude_pgns=[127250]), dict(exclude_pgns=["WINDDATA"]), dict(exclude_pgns=[60928, "configurationInformation"]),
        dict(include_pgns=[126998]), dict(include_pgns=["vesselheading", 60928]), dict(include_pgns=["isoaddressCLAIM", 130306]),
        dict(include_pgns=[]), dict(exclude_pgns=[]),
    ]
    u_out, u_map = run(history, **common_kw)
    for cfg in configs:
        f_out, f_map = run(history, **common_kw, **cfg)
        expected = [k if (k is not None and permitted(k, cfg.get("exclude_pgns", ()), cfg.get("include_pgns", ()))) else None for k in u_out]
        good = f_out == expected and f_map == u_map
        ok = ok and good
        print(f"  C10 with {cfg}: {'holds' if good else 'VIOLATED'}")
    return ok


history = []
history += [heading(5), wind(5)]                       # source 5 has not claimed an address yet
history += fast(126998, 5, CONFIG_INFO, seq=1)
history += [claim(5, NAVICO), claim(7, VICTRON)]
history += [heading(5), wind(7), heading(9)]           # 5 = Navico, 7 = Victron, 9 = still unknown
history += fast(126998, 5, CONFIG_INFO, seq=2)
history += fast(126998, 9, CONFIG_INFO, seq=2)

print('decoder with include_manufacturer_code=["Navico"], no PGN filter:')
d = NMEA2000Decoder(include_manufacturer_code=["Navico"])
for line in history:
    m = d.decode_basic_string(line)
    who = d.source_to_iso_name.get(int(line.split(",")[3]))
    print(f"  pgn {line.split(',')[2]:>6} src {line.split(',')[3]} (manufacturer known: {who.manufacturer_code if who else 'no'})"
          f" -> {'None' if m is None else m.id}")
n_unknown = sum(1 for k in run(history, include_manufacturer_code=["Navico"])[0] if k is not None and k[6] is None and k[0] != 60928)
print(f"messages returned from sources whose manufacturer is not known: {n_unknown}")
print("  (clean tree: such traffic passes the manufacturer white list; changed tree: it is held back)")

print("property C10, decoders share include_manufacturer_code=['Navico']:")
ok1 = check_property(history, dict(include_manufacturer_code=["Navico"]))
print("property C10, no manufacturer filter:")
ok2 = check_property(history, dict())
print("C10 holds on this tree:", ok1 and ok2)
