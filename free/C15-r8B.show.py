"""show_B: what happens to a dump file that already holds records of an earlier session?
Runs on the clean and on the changed tree (exit 0 on both); prints the difference."""
import os
import tempfile
from nmea2000.decoder import NMEA2000Decoder

FRAME_1 = "A000057.055 09FF7 0FF00 3F9FDCFFFFFFFFFF"      # PGN 65280
FRAME_2 = "A000058.000 09FF7 1F119 0102030405060708"      # PGN 127257 (attitude)

with tempfile.TemporaryDirectory() as d:
    path = os.path.join(d, "dump.jsonl")

    # session 1
    with NMEA2000Decoder(dump_to_file=path) as dec:
        m1 = dec.decode_actisense_string(FRAME_1)
    first = open(path).read().splitlines()
    assert first == [m1.to_json()]
    print("after session 1: dump has", len(first), "line(s): PGN", m1.PGN)

    # session 2, same file name
    with NMEA2000Decoder(dump_to_file=path) as dec:
        returned = [dec.decode_actisense_string(FRAME_2), dec.decode_actisense_string(FRAME_1)]
    returned = [m for m in returned if m is not None]
    lines = open(path).read().splitlines()
    print("after session 2: session returned", len(returned), "message(s); dump has", len(lines), "line(s)")
    print("  dump == JSON of exactly the messages returned in session 2:", lines == [m.to_json() for m in returned])
    print("  files in directory:", sorted(os.listdir(d)))
    if os.path.exists(path + ".1"):
        old = open(path + ".1").read().splitlines()
        print("  dump.jsonl.1 holds session 1 unchanged:", old == first)
        print("RESULT: every session starts a fresh dump, the previous one is kept as <name>.1 (new behaviour)")
    else:
        print("  dump starts with the line(s) of session 1:", lines[:len(first)] == first)
        print("RESULT: sessions are appended to one another in the same file (old behaviour)")
