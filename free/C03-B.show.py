"""show_B: what does the LAST frame of a fast-packet message look like on each transport?

A 43-byte message needs 7 frames; the last one has only 2 payload bytes left. Prints that frame as
produced by _encode_fast_message / encode_yacht_devices / encode_ebyte / encode_usb (length and
filler differ between the clean and the changed tree), then the round trip. Always exits 0."""
import logging
from nmea2000.decoder import NMEA2000Decoder
from nmea2000.encoder import NMEA2000Encoder

logging.disable(logging.CRITICAL)

LINES = """2022-09-28-11:36:59.668,3,129029,0,255,8,00,2f,e7,95,3d,00,73,d6
2022-09-28-11:36:59.668,3,129029,0,255,8,01,29,00,da,04,73,db,c9
2022-09-28-11:36:59.668,3,129029,0,255,8,02,e5,05,80,7d,02,28,5f
2022-09-28-11:36:59.668,3,129029,0,255,8,03,d6,10,f6,9b,50,6c,05
2022-09-28-11:36:59.668,3,129029,0,255,8,04,00,00,00,00,13,fc,08
2022-09-28-11:36:59.668,3,129029,0,255,8,05,6f,00,be,00,dd,f2,ff
2022-09-28-11:36:59.668,3,129029,0,255,8,06,ff,00,ff,ff,ff,ff,ff""".splitlines()

decoder = NMEA2000Decoder()
msg = None
for line in LINES:
    msg = decoder.decode_basic_string(line)
assert msg is not None

enc = NMEA2000Encoder()
for n in (0, 3, 6, 7, 13, 20, 43, 223):
    frames = enc._encode_fast_message(129029, 3, 0, 255, bytes(range(1, n + 1)))
    assert all(len(f) <= 8 for f in frames) and frames[0][1] == n
    print(f"payload {n:3d} bytes -> {len(frames):2d} frames, frame lengths {sorted(set(len(f) for f in frames))}, "
          f"last frame: {frames[-1].hex(' ')}")

yd = enc.encode_yacht_devices(msg)
print("yacht devices, last frame :", yd[-1].decode().strip())
eb = enc.encode_ebyte(msg)
print("ebyte, last packet        :", eb[-1].hex(' '), " (length nibble", eb[-1][0] & 0x0F, ")")
usb = enc.encode_usb(msg)
print("usb, last packet          :", usb[-1].hex(' '), " (length byte", usb[-1][9], ")")

for name, packets, dec in (("ebyte", eb, decoder.decode_tcp), ("usb", usb, decoder.decode_usb)):
    out = [dec(p) for p in packets]
    assert all(o is None for o in out[:-1]) and out[-1] is not None
    assert [f.raw_value for f in out[-1].fields] == [f.raw_value for f in msg.fields]
    print(f"{name}: {len(packets)} frames in order -> nothing for the first {len(packets) - 1}, then one message with identical fields")
