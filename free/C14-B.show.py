"""show_B: how long the client's own timed waits outlive close().

Part 1: nothing listens on the port, connect() keeps retrying with exponential back-off (0.5 s, 1 s, 2 s, ...).
        close() is called in the middle of the 2 s wait. When does the pending connect() return?
Part 2: a connected Yacht Devices client has a network-map seeding task (3 requests, 2 s apart).
        close() is called after 0.2 s. Is that task still alive after close() returned?
"""
import asyncio
import logging
import socket
import time

from nmea2000.ioclient import YachtDevicesNmea2000Gateway, State

logging.getLogger("nmea2000").setLevel(logging.ERROR)


def free_port():
    s = socket.socket()
    s.bind(("127.0.0.1", 0))
    port = s.getsockname()[1]
    s.close()
    return port


def seed_tasks():
    return [t for t in asyncio.all_tasks() if "_seed_network_map" in repr(t.get_coro()) and not t.done()]


async def part1():
    client = YachtDevicesNmea2000Gateway("127.0.0.1", free_port())
    attempts = []
    real_connect = client._connect_impl

    async def counting_connect():
        attempts.append(time.monotonic())
        await real_connect()

    client._connect_impl = counting_connect
    statuses = []

    async def on_status(state):
        statuses.append(state.name)

    client.set_status_callback(on_status)
    t0 = time.monotonic()
    pending = asyncio.create_task(client.connect())
    await asyncio.sleep(1.8)  # attempts at 0, 0.5 and 1.5 s have failed; the next one is due at 3.5 s
    n_before = len(attempts)
    await client.close()
    t_close = time.monotonic()
    await pending
    t_done = time.monotonic()
    await asyncio.sleep(0.1)
    print("part 1: close() during the retry wait")
    print(f"  attempts before close()                 : {n_before}")
    print(f"  attempts after close()                  : {len(attempts) - n_before}")
    print(f"  pending connect() returned after close(): {(t_done - t_close) * 1000:.0f} ms")
    print(f"  state                                   : {client.state}, notifications {statuses}")


async def part2():
    async def handle(reader, writer):
        try:
            await reader.read()
        finally:
            writer.close()

    server = await asyncio.start_server(handle, "127.0.0.1", 0)
    port = server.sockets[0].getsockname()[1]
    client = YachtDevicesNmea2000Gateway("127.0.0.1", port, build_network_map=True)
    await client.connect()
    await asyncio.sleep(0.2)
    alive_before = len(seed_tasks())
    await client.close()
    await asyncio.sleep(0.05)
    alive_after = len(seed_tasks())
    print("part 2: close() while the network map is being seeded")
    print(f"  seeding task alive before close()       : {alive_before}")
    print(f"  seeding task alive 50 ms after close()  : {alive_after}")
    print(f"  state                                   : {client.state}, link shut: {client.writer.is_closing()}")
    for t in seed_tasks():
        t.cancel()
    server.close()
    await server.wait_closed()


async def main():
    await part1()
    await part2()


asyncio.run(main())
