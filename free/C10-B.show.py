"""Change B: the dump file records decoded traffic independently of the include/exclude filters.

Feeds the same history to a decoder with a PGN filter and a dump file, then prints what the
decoder RETURNED (identical on both trees) and what ended up in the DUMP FILE and in the
reassembly table (different). Exits 0 on the clean and on the changed tree.
"""
import logging
import os
import tempfile

import orjson

from nmea2000.decoder import NMEA2000Decoder

logging.disable(logging.CRITICAL)

TS = "2022-09-10T12:10:16.614Z"
HISTORY = [
    f"{TS},6,60928,7,255,8,fb,9b,70,22,00,9b,50,c0",                 # isoAddressClaim from 7
    f"{TS},2,130306,7,255,8,00,10,00,20,30,02,ff,ff",                # windData (single frame)
    f"{TS},2,127250,7,255,8,00,10,20,ff,7f,ff,7f,fd",                # vesselHeading (single frame)
    f"{TS},6,126998,7,255,8,00,13,07,01,68,65,6c,6c",                # configurationInformation, fast packet 1/3
    f"{TS},6,126998,7,255,8,01,6f,0c,00,77,00,f3,00",                #   2/3
    f"{TS},2,130306,9,255,8,01,11,00,21,30,02,ff,ff",                # windData from 9
    f"{TS},6,126998,7,255,8,02,72,00,6c,00,64,00,ff",                #   3/3
    f"{TS},6,126996,7,255,8,20,86,34,08,01,02,03,04",                # productInformation 1/20, never completed
]


def run(label, **kw):
    fd, path = tempfile.mkstemp(suffix=".jsonl")
    os.close(fd)
    try:
        with NMEA2000Decoder(dump_to_file=path, **kw) as dec:
            returned = []
            for line in HISTORY:
                m = dec.decode_basic_string(line)
                returned.append("-" if m is None else f"{m.id}@{m.source}")
            pending = sorted(dec.data)
            src_map = sorted(dec.source_to_iso_name)
        with open(path) as f:
            dumped = [f"{d['id']}@{d['source']}" for d in map(orjson.loads, f.read().splitlines())]
    finally:
        os.remove(path)
    print(label)
    print("   returned  :", " ".join(returned))
    print("   source map:", src_map)
    print("   dump file :", " ".join(dumped) if dumped else "(empty)")
    print("   reassembly buffers still open:", pending)


run("no filter")
run("exclude_pgns=[130306, 126998, 126996, 60928]", exclude_pgns=[130306, 126998, 126996, 60928])
run("exclude_pgns=['WINDDATA']", exclude_pgns=["WINDDATA"])
run("include_pgns=[127250]", include_pgns=[127250])
run("include_pgns=[127250], dump_pgns=[130306]", include_pgns=[127250], dump_pgns=[130306])
