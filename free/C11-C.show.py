"""show_C: a fast-packet message whose frames straddle a re-claim of the source address by a DIFFERENT NAME.

clean tree  : frames sent before and after the take-over are glued together and returned as one
              message (carrying the new owner's identity)
changed tree: the frames collected from the previous owner are dropped at the take-over; nothing is
              returned for the straddling message; the next complete message is returned normally
In both trees: a repeated identical claim, a first claim, or a claim of another address in the middle
of a message does not disturb it, and every returned message carries the latest claimed identity.
"""
import logging
from nmea2000.decoder import NMEA2000Decoder

logging.disable(logging.CRITICAL)

NAVICO, GARMIN = 275, 229
PAYLOAD = bytes.fromhex("07016865 6C6C6F0c 007700F3 0072006C 006400".replace(" ", ""))  # PGN 126998, 19 bytes


def name64(unique, mfr, dev_class=25, function=130, inst=0, sys_inst=0, industry=4, aac=1):
    return (unique & 0x1FFFFF) | (mfr << 21) | ((inst & 0xFF) << 32) | (function << 40) | (dev_class << 49) \
        | (sys_inst << 56) | (industry << 60) | (aac << 63)


def tcp(pgn, src, data8, prio=6, dest=255):
    pf = (pgn >> 8) & 0xFF
    can_id = (prio << 26) | ((pgn | (dest if pf < 0xF0 else 0)) << 8) | src
    return bytes([0x88]) + can_id.to_bytes(4, "big") + bytes(data8)


def claim(src, name):
    return tcp(60928, src, name.to_bytes(8, "little"))


def fast_frames(src, seq, payload=PAYLOAD, pgn=126998):
    chunks = [payload[:6]] + [payload[i:i + 7] for i in range(6, len(payload), 7)]
    frames = []
    for n, chunk in enumerate(chunks):
        head = bytes([(seq << 5) | n]) + (bytes([len(payload)]) if n == 0 else b"")
        frames.append(tcp(pgn, src, (head + chunk).ljust(8, b"\xff")))
    return frames


def describe(msg):
    if msg is None:
        return "None"
    iso = msg.source_iso_name
    return f"PGN {msg.PGN} src={msg.source} identity=" + ("None" if iso is None else f"{iso.manufacturer_code}/{iso.unique_number}")


def run(title, netmap, mid_claim, first_claim=True):
    d = NMEA2000Decoder(build_network_map=netmap)
    out = []
    if first_claim:
        out.append(d.decode_tcp(claim(10, name64(111, NAVICO))))
    out.append(d.decode_tcp(claim(20, name64(222, NAVICO))))
    f = fast_frames(10, seq=1)
    out.append(d.decode_tcp(f[0]))
    out.append(d.decode_tcp(f[1]))
    out.append(d.decode_tcp(mid_claim))          # a claim in the middle of the message
    last = d.decode_tcp(f[2])
    out.append(last)
    nxt = [d.decode_tcp(x) for x in fast_frames(10, seq=2)]
    out += nxt
    print(f"{title:<58} netmap={netmap!s:<5} straddling msg -> {describe(last):<48} next msg -> {describe(nxt[-1])}")
    # what the property says, on both trees: every returned message carries the latest claim of ITS source
    for m in out:
        if m is not None and m.source in d.source_to_iso_name and m.PGN != 60928:
            assert m.source_iso_name is d.source_to_iso_name[m.source]
    assert d.source_to_iso_name[20].unique_number == 222
    assert nxt[-1] is not None
    return last


for netmap in (False, True):
    a = run("identical re-claim of src 10 in the middle", netmap, claim(10, name64(111, NAVICO)))
    b = run("claim of ANOTHER address (src 30) in the middle", netmap, claim(30, name64(111, NAVICO)))
    assert a is not None and b is not None and a.source_iso_name.unique_number == 111
    if not netmap:
        c = run("FIRST claim of src 10 in the middle (data before claim)", netmap, claim(10, name64(111, NAVICO)), first_claim=False)
        assert c is not None and c.source_iso_name.unique_number == 111
    e = run("src 10 re-claimed by a DIFFERENT NAME (Garmin/999)", netmap, claim(10, name64(999, GARMIN)))
    print(" " * 58, "^^^ differs between the trees")
    assert e is None or e.source_iso_name.unique_number == 999
    print("RESULT: message straddling an address take-over is returned:", e is not None)
