"""show_A: which 3-bit sequence number does the encoder put on consecutive fast-packet messages,
and what does NMEA2000Encoder.sequence_counter hold before/after each of them?

Prints the numbers (they differ between the clean and the changed tree) and always exits 0.
The round trip through the public path (encode_ebyte -> decode_tcp) is printed too."""
import logging
from nmea2000.decoder import NMEA2000Decoder
from nmea2000.encoder import NMEA2000Encoder

logging.disable(logging.CRITICAL)

# A 43-byte fast-packet message (PGN 129029, GNSS Position Data), as 7 CAN frames
LINES = """2022-09-28-11:36:59.668,3,129029,0,255,8,00,2f,e7,95,3d,00,73,d6
2022-09-28-11:36:59.668,3,129029,0,255,8,01,29,00,da,04,73,db,c9
2022-09-28-11:36:59.668,3,129029,0,255,8,02,e5,05,80,7d,02,28,5f
2022-09-28-11:36:59.668,3,129029,0,255,8,03,d6,10,f6,9b,50,6c,05
2022-09-28-11:36:59.668,3,129029,0,255,8,04,00,00,00,00,13,fc,08
2022-09-28-11:36:59.668,3,129029,0,255,8,05,6f,00,be,00,dd,f2,ff
2022-09-28-11:36:59.668,3,129029,0,255,8,06,ff,00,ff,ff,ff,ff,ff""".splitlines()

decoder = NMEA2000Decoder()
msg = None
for line in LINES:
    msg = decoder.decode_basic_string(line)
assert msg is not None

encoder = NMEA2000Encoder()
print("attribute after construction:", encoder.sequence_counter)
used = []
for i in range(10):
    before = encoder.sequence_counter
    packets = encoder.encode_ebyte(msg)            # 13-byte ECAN packets, CAN data at [5:13]
    seqs = {p[5] >> 5 for p in packets}
    frames = [p[5] & 0x1F for p in packets]
    assert len(seqs) == 1 and frames == list(range(len(packets)))
    seq = seqs.pop()
    if used:
        assert seq != used[-1]
    used.append(seq)
    results = [decoder.decode_tcp(p) for p in packets]
    assert all(r is None for r in results[:-1]) and results[-1] is not None
    assert [f.raw_value for f in results[-1].fields] == [f.raw_value for f in msg.fields]
    print(f"message {i}: attribute before={before}  sequence on the wire={seq}  attribute after={encoder.sequence_counter}"
          f"  frames={len(packets)}  round trip ok")
print("sequence numbers on the wire:", used)
print("first message after construction uses sequence", used[0])
print("attribute == sequence of the message just encoded:", encoder.sequence_counter == used[-1])

# forcing each counter state by hand
for s in range(8):
    encoder.sequence_counter = s
    frames = encoder._encode_fast_message(129029, 3, 0, 255, bytes(range(20)))
    print(f"state {s}: frames carry sequence {frames[0][0] >> 5}, state afterwards {encoder.sequence_counter}")
