"""show_B: malformed frames are reported with ValueError before any filtering.

Feeds frames that cannot have been on an NMEA 2000 bus (no data bytes, truncated packet, announced
length larger than the bytes given, 12 data bytes in one CAN frame, priority 9) to an unfiltered decoder
and to one that excludes the PGN, prints what each does, and then checks property C10 on a history
of well-formed traffic with the malformed frames mixed in (an exception = no message at that position).
Exits 0 on the clean and on the changed tree.
"""
import logging
from nmea2000.decoder import NMEA2000Decoder

logging.disable(logging.CRITICAL)
TS = "2022-09-10T12:10:16.614Z"
NAVICO = "fb,9b,70,22,00,9b,50,c0"
VICTRON = "f5,01,c0,2c,ef,aa,46,c0"
CONFIG_INFO = "07,01,68,65,6C,6C,6F,0c,00,77,00,F3,00,72,00,6C,00,64,00".split(",")


def single(pgn, src, data, prio=2, dest=255):
    return ("basic", f"{TS},{prio},{pgn},{src},{dest},{len(data.split(','))},{data}")


def claim(src, name):
    return single(60928, src, name, prio=6)


def fast(pgn, src, payload, seq, prio=6, dest=255):
    frames = []
    rest = list(payload)
    frames.append([f"{(seq << 5):02x}", f"{len(payload):02x}"] + rest[:6])
    rest = rest[6:]
    n = 1
    while rest:
        chunk = rest[:7]
        rest = rest[7:]
        frames.append([f"{(seq << 5) | n:02x}"] + chunk + ["ff"] * (7 - len(chunk)))
        n += 1
    return [("basic", f"{TS},{prio},{pgn},{src},{dest},8,{','.join(f)}") for f in frames]


def tcp(pgn, src, data: bytes, prio=2, dlc=None, pad=True):
    """13 byte ECAN packet; dlc may lie about the data, pad=False gives a truncated packet"""
    frame_id = (prio << 26) | (pgn << 8) | src
    dlc = len(data) if dlc is None else dlc
    body = data + (bytes(8 - len(data)) if pad else b"")
    return ("tcp", bytes([0x80 | dlc]) + frame_id.to_bytes(4, "big") + body)


def heading(src):
    return single(127250, src, "00,10,27,ff,7f,ff,7f,fd")


def wind(src):
    return single(130306, src, "00,10,01,20,30,fa,ff,ff")


def feed(d, item):
    kind, payload = item
    if kind == "basic":
        return d.decode_basic_string(payload)
    return d.decode_tcp(payload)


def key(m):
    if m is None:
        return None
    return (m.PGN, m.id, m.source, m.destination, m.priority,
            tuple((f.id, f.raw_value, str(f.value)) for f in m.fields),
            None if m.source_iso_name is None else m.source_iso_name.name)


def run(history, **kw):
    d = NMEA2000Decoder(**kw)
    out = []
    for item in history:
        try:
            out.append(key(feed(d, item)))
        except Exception:
            out.append(None)
    return out, {s: n.name for s, n in d.source_to_iso_name.items()}


def permitted(k, exclude=(), include=()):
    pgn, id_ = k[0], k[1].lower()
    if pgn in {e for e in exclude if isinstance(e, int)} or id_ in {e.lower() for e in exclude if isinstance(e, str)}:
        return False
    if include and pgn not in {e for e in include if isinstance(e, int)} and id_ not in {e.lower() for e in include if isinstance(e, str)}:
        return False
    return True


def describe(d, item):
    try:
        m = feed(d, item)
        return "None" if m is None else f"message {m.id}"
    except Exception as e:
        return f"{type(e).__name__}: {e}"


malformed = {
    "wind data 130306, CAN frame with 0 data bytes": tcp(130306, 7, b""),
    "config info 126998 (fast packet), CAN frame with 0 data bytes": tcp(126998, 7, b"", prio=6),
    "wind data 130306, packet announces 8 data bytes, is cut after 3": tcp(130306, 7, bytes.fromhex("001001"), dlc=8, pad=False),
    "wind data 130306, text line announces 8 data bytes, gives 5": ("basic", f"{TS},2,130306,7,255,8,00,10,01,20,30"),
    "wind data 130306, 12 data bytes in one (not combined) frame": ("basic", f"{TS},2,130306,7,255,12,00,10,01,20,30,fa,ff,ff,01,02,03,04"),
    "wind data 130306, priority 9": ("basic", f"{TS},9,130306,7,255,8,00,10,01,20,30,fa,ff,ff"),
}
for title, item in malformed.items():
    pgn = 126998 if "126998" in title else 130306
    print(title)
    print("   unfiltered decoder      :", describe(NMEA2000Decoder(), item))
    print(f"   exclude_pgns=[{pgn}]   :", describe(NMEA2000Decoder(exclude_pgns=[pgn]), item))
    print(f"   include_pgns=[127250]   :", describe(NMEA2000Decoder(include_pgns=[127250]), item))

history = [heading(5), wind(5)] + fast(126998, 5, CONFIG_INFO, 1) + [claim(5, NAVICO), claim(7, VICTRON)]
bad = list(malformed.values())
history += [bad[0], wind(7), bad[1]]
part = fast(126998, 7, CONFIG_INFO, 2)
history += [part[0], bad[1], part[1], bad[2], part[2]]     # malformed frames in the middle of a sequence
history += [bad[3], heading(7), bad[4], wind(5), bad[5], tcp(130306, 9, bytes.fromhex("0010012030faffff"))]
history += fast(126998, 5, CONFIG_INFO, 3)

configs = [
    dict(exclude_pgns=[130306]), dict(exclude_pgns=["WINDDATA", 126998]), dict(exclude_pgns=[60928, "configurationInformation"]),
    dict(include_pgns=[126998]), dict(include_pgns=["vesselheading", 60928]), dict(include_pgns=["isoaddressCLAIM", 130306]),
    dict(include_pgns=[]), dict(exclude_pgns=[]),
]
u_out, u_map = run(history)
print(f"history of {len(history)} frames, unfiltered decoder returns {sum(k is not None for k in u_out)} messages")
ok = True
for cfg in configs:
    f_out, f_map = run(history, **cfg)
    expected = [k if (k is not None and permitted(k, cfg.get("exclude_pgns", ()), cfg.get("include_pgns", ()))) else None for k in u_out]
    good = f_out == expected and f_map == u_map
    ok = ok and good
    print(f"  C10 with {cfg}: {'holds' if good else 'VIOLATED'}")
print("C10 holds on this tree:", ok)
