"""show_C: dump filters written the command-line way ("65280" as text, "65280, attitude" as one
comma separated string) and the tcp_client --dump_file/--dump_pgns options.
Runs on the clean and on the changed tree (exit 0 on both); prints the difference."""
import asyncio
import os
import sys
import tempfile
from nmea2000.decoder import NMEA2000Decoder
import nmea2000.cli as cli

FRAMES = ["A000057.055 09FF7 0FF00 3F9FDCFFFFFFFFFF",      # PGN 65280  furunoHeave (proprietary)
          "A000058.000 09FF7 1F119 0102030405060708",      # PGN 127257 attitude
          "A000059.000 09FF7 1F112 0102030405060708"]      # PGN 127250 vesselHeading

def run(dump_pgns):
    with tempfile.TemporaryDirectory() as d:
        path = os.path.join(d, "dump.jsonl")
        with NMEA2000Decoder(dump_to_file=path, dump_pgns=dump_pgns) as dec:
            returned = [m for m in (dec.decode_actisense_string(f) for f in FRAMES) if m is not None]
        lines = open(path).read().splitlines()
    by_json = {m.to_json(): m for m in returned}
    assert all(line in by_json for line in lines)          # the dump never holds anything else
    return [m.PGN for m in returned], [by_json[line].PGN for line in lines]

new = False
for flt in ([65280], ["attitude"], [65280, "attitude"], [], ["65280"], ["127257", "vesselHeading"], "65280, attitude", "127250"):
    returned, dumped = run(flt)
    print(f"dump_pgns={flt!r:32} returned {returned} dumped {dumped}")
    if flt == ["65280"]:
        new = dumped == [65280]

# the command line: does tcp_client hand --dump_file / --dump_pgns to the gateway?
seen = {}
class FakeGateway:
    def __init__(self, *args, **kwargs):
        seen["args"], seen["kwargs"] = args, kwargs
async def no_interactive(client):
    return None
cwd = os.getcwd()
with tempfile.TemporaryDirectory() as d:
    os.chdir(d)                                            # async_main() creates parser.log in the cwd
    try:
        cli.ActisenseNmea2000Gateway = FakeGateway
        cli.interactive_client = no_interactive
        sys.argv = ["nmea2000-cli", "tcp_client", "--server", "127.0.0.1", "--port", "1", "--type", "actisense",
                    "--dump_file", "x.jsonl", "--dump_pgns", "65280,attitude"]
        asyncio.run(cli.async_main())
    finally:
        os.chdir(cwd)
        import logging
        logging.shutdown()
print("tcp_client built the gateway with:", seen["args"], seen["kwargs"])

if new or seen["kwargs"]:
    print("RESULT: numeric text and comma separated text are understood as dump filters; tcp_client honours --dump_file/--dump_pgns (new behaviour)")
else:
    print("RESULT: numeric text / comma separated text never match anything; tcp_client ignores --dump_file/--dump_pgns (old behaviour)")
