"""show_C: a status callback that takes very long.

The status callback sleeps 3 s when it is told CONNECTED (think of a listener that hangs on a slow
database or a dead MQTT broker). The gateway sends one message as soon as the client is connected.
Prints how long connect() was held up, whether the callback ran to its end, when the first message
reached the application, and the notifications seen. Takes about 4 s.
"""
import asyncio
import logging
import time

from nmea2000.ioclient import YachtDevicesNmea2000Gateway

logging.getLogger("nmea2000").setLevel(logging.CRITICAL)
LINE = b"00:01:54.430 R 15F11910 00 00 00 E5 0B 1D FF FF\r\n"


async def main():
    async def handle(reader, writer):
        writer.write(LINE)
        await writer.drain()
        try:
            await reader.read()
        finally:
            writer.close()

    server = await asyncio.start_server(handle, "127.0.0.1", 0)
    port = server.sockets[0].getsockname()[1]
    client = YachtDevicesNmea2000Gateway("127.0.0.1", port)

    invoked, completed = [], []
    first_message_at = []
    t0 = time.monotonic()

    async def on_status(state):
        invoked.append(state.name)
        if state.name == "CONNECTED":
            await asyncio.sleep(3)
        completed.append(state.name)

    async def on_message(msg):
        first_message_at.append(time.monotonic() - t0)

    client.set_status_callback(on_status)
    client.set_receive_callback(on_message)
    await client.connect()
    connect_took = time.monotonic() - t0
    for _ in range(200):
        if first_message_at:
            break
        await asyncio.sleep(0.01)
    state_after_connect = client.state
    await client.close()
    await asyncio.sleep(0.05)

    print(f"connect() returned after            : {connect_took:.1f} s")
    print(f"state after connect()               : {state_after_connect}")
    print(f"first message reached the app after : {first_message_at[0]:.1f} s" if first_message_at else "no message")
    print(f"status callback invoked for         : {invoked}")
    print(f"status callback ran to its end for  : {completed}")
    print(f"state after close()                 : {client.state}, link shut: {client.writer.is_closing()}")
    print(f"background tasks finished           : {client._process_queue_task.done() and client._receive_task.done()}")
    server.close()
    await server.wait_closed()


asyncio.run(main())
