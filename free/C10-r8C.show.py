"""Change C: the PGN filters keep accounts and talk about what they do (attributes, INFO/WARNING log lines).

Same traffic through a filtered decoder on both trees: identical return values, but the changed tree logs the first
drop of every PGN, warns about a filter entry that names a PGN the library does not know, exposes returned_count /
filtered_counts / filter_summary() and logs the summary on close().
"""
import logging

from nmea2000.decoder import NMEA2000Decoder


class Collect(logging.Handler):
    def __init__(self):
        super().__init__(level=logging.INFO)
        self.lines = []

    def emit(self, record):
        self.lines.append(f"{record.levelname}: {record.getMessage()}")


h = Collect()
lg = logging.getLogger("nmea2000.decoder")
lg.setLevel(logging.INFO)
lg.addHandler(h)
lg.propagate = False

GNSS = [ln.strip() for ln in open("tests/recombine-frames-1.in") if ",129029," in ln]
ENV = "2022-09-28-11:36:59.668,5,130311,35,255,8,c5,c0,1c,6e,ff,7f,ff,ff"
CLAIM = "2022-09-10T12:10:16.614Z,6,60928,35,255,8,fb,9b,70,22,00,9b,50,c0"
WIND = "A000057.067 22FF2 1FD02 075101744CFAFFFF"

d = NMEA2000Decoder(exclude_pgns=[129029, "ENVIRONMENTALparameters", 60928, 123456])
n_ctor = len(h.lines)

out = []
for s in [CLAIM] + GNSS + [ENV, ENV, ENV]:
    out.append(d.decode_basic_string(s))
out.append(d.decode_actisense_string(WIND))
out.append(d.decode_basic_string(ENV))
d.close()

print("returned:", [None if m is None else m.id for m in out])
print("source map still updated by the filtered claim:", sorted(d.source_to_iso_name))
print("log lines of the constructor about the filters:")
for ln in h.lines[:n_ctor]:
    print("   ", ln)
print("log lines while decoding / closing:")
for ln in h.lines[n_ctor:]:
    print("   ", ln)
print("returned_count  :", getattr(d, "returned_count", "<no such attribute>"))
print("filtered_counts :", getattr(d, "filtered_counts", "<no such attribute>"))
print("filter_summary():", d.filter_summary() if hasattr(d, "filter_summary") else "<no such method>")
