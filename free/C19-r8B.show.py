"""show_B: when are the packets of a multi-frame message handed to the link?

Three send() calls are started at the same moment on an EByte client whose link is a fake writer
that never suspends (drain() returns at once) and that records the time of every write():
  M1 = PGN 129029 (7 packets), M2 = PGN 59904 ISO request (1 packet), M3 = PGN 127506 (2 packets).
Prints, per write, the owning message and the time since the first write, then the elapsed time per
message.  Also checks C19: per message exactly the encoder's packets, in order, contiguous.
Exits 0 on the clean and on the changed tree.
"""
import asyncio
import inspect
import logging
import re

import nmea2000.pgns as P
from nmea2000.ioclient import EByteNmea2000Gateway, State
from nmea2000.message import NMEA2000Message, NMEA2000Field

logging.disable(logging.CRITICAL)


def mk(pgn, src=1):
    ids = re.findall(r'get_field_by_id\("(\w+)"\)', inspect.getsource(getattr(P, 'encode_pgn_%d' % pgn)))
    return NMEA2000Message(PGN=pgn, priority=6, source=src, destination=255,
                           fields=[NMEA2000Field(id=i, value=1, raw_value=1) for i in ids])


ISO_REQUEST = '{"PGN":59904,"id":"isoRequest","description":"ISO Request","fields":[{"id":"pgn","name":"PGN","description":null,"unit_of_measurement":null,"value":60928,"raw_value":60928,"physical_quantities":null,"type":[13],"part_of_primary_key":false}],"source":0,"destination":255,"priority":6,"timestamp":"2012-06-17T15:02:11","source_iso_name":null,"hash":null}'


class FakeWriter:
    def __init__(self):
        self.written = []   # (time, bytes)

    def write(self, data):
        self.written.append((asyncio.get_running_loop().time(), bytes(data)))

    async def drain(self):
        return          # flow control never suspends the writer

    def close(self):
        pass

    def is_closing(self):
        return False

    def get_extra_info(self, name, default=None):
        return default


async def main():
    client = EByteNmea2000Gateway("127.0.0.1", 1)
    client.writer = FakeWriter()
    client._state = State.CONNECTED
    print("client.frame_gap attribute:", getattr(client, "frame_gap", "(none)"))

    produced = {}
    real_encode = client._encode_impl
    names = {}

    def spy(msg):
        packets = real_encode(msg)
        produced[names[id(msg)]] = list(packets)
        return packets
    client._encode_impl = spy

    msgs = {"M1": mk(129029), "M2": NMEA2000Message.from_json(ISO_REQUEST), "M3": mk(127506)}
    for name, m in msgs.items():
        names[id(m)] = name

    await asyncio.gather(*(client.send(m) for m in msgs.values()))

    owner = {}
    for name, packets in produced.items():
        for p in packets:
            owner[p] = name
    t0 = client.writer.written[0][0]
    seq = []
    for t, data in client.writer.written:
        seq.append(owner[data])
        print(f"  +{(t - t0) * 1000:7.2f} ms  {owner[data]}  {data.hex()}")

    # C19: exactly the encoder's packets, in order, contiguous per message
    wire = [d for _, d in client.writer.written]
    expected = produced["M1"] + produced["M2"] + produced["M3"]
    print("wire == M1 packets + M2 packets + M3 packets:", wire == expected)
    assert wire == expected
    print("owner sequence:", "".join(s[1] for s in seq))

    times = {}
    for (t, d) in client.writer.written:
        times.setdefault(owner[d], []).append(t)
    for name in ("M1", "M2", "M3"):
        ts = times[name]
        gaps = [b - a for a, b in zip(ts, ts[1:])]
        print(f"{name}: {len(ts)} packets, first-to-last {1000 * (ts[-1] - ts[0]):.2f} ms, "
              f"smallest gap between its packets {1000 * min(gaps):.2f} ms" if gaps else
              f"{name}: 1 packet")
    total = client.writer.written[-1][0] - t0
    if total < 0.002:
        print(f"-> all 10 packets handed to the link in one burst ({1000 * total:.2f} ms): clean tree behaviour")
    else:
        print(f"-> packets of a multi-frame message are paced ({1000 * total:.2f} ms in total): change B")
    print("state:", client.state)
    await client.close()


asyncio.run(main())
