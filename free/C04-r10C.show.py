"""show_C: the whole fast-packet message, FIRST FRAME INCLUDED, arrives a second time right after it was delivered
(same sequence counter, same bytes: a gateway echo / bus level retransmission of every frame).

Clean tree  : the repeated first frame starts a new reassembly (the stream state was deleted on delivery), the other
              repeated frames complete it: the same message is delivered twice.
Changed tree: a first frame identical to the first frame of the message just delivered on that stream, seen within
              50 ms and before anything with another sequence counter, is ignored as a duplicate; so are the
              frames behind it: the message is delivered once.
On both trees: the next message (other sequence counter) is delivered at once, and the same frames repeated
after the 50 ms window (a sender that does not rotate its sequence counter) are delivered again.
Exits 0 on both trees.
"""
import time
from nmea2000.decoder import NMEA2000Decoder

TS = "2022-09-28-11:36:59.668"
HEAD = TS + ",3,129029,0,255,8,"
FRAMES = [
    "00,2f,e7,95,3d,00,73,d6",
    "01,29,00,da,04,73,db,c9",
    "02,e5,05,80,7d,02,28,5f",
    "03,d6,10,f6,9b,50,6c,05",
    "04,00,00,00,00,13,fc,08",
    "05,6f,00,be,00,dd,f2,ff",
    "06,ff,00,ff,ff,ff,ff,ff",
]


def with_seq(frame: str, seq: int) -> str:
    parts = frame.split(",")
    parts[0] = f"{(seq << 5) | int(parts[0], 16):02x}"
    return ",".join(parts)


def send(decoder, seq, label):
    delivered = 0
    trace = []
    for f in FRAMES:
        msg = decoder.decode_basic_string(HEAD + with_seq(f, seq))
        trace.append("MSG" if msg is not None else "-")
        if msg is not None:
            assert msg.PGN == 129029 and msg.fields[3].value == 42.496768422109845
            delivered += 1
    print(f"  {label:<62} frames: {' '.join(trace)}   delivered: {delivered}")
    return delivered


def main():
    d = NMEA2000Decoder()
    a = send(d, 0, "message, sequence counter 0")
    b = send(d, 0, "the same 7 frames again at once (echo, first frame included)")
    c = send(d, 1, "next message, sequence counter 1, at once")
    e = send(d, 1, "its 7 frames again at once (echo)")
    time.sleep(0.2)
    f = send(d, 1, "the same 7 frames again 200 ms later (real repetition)")
    print()
    print(f"deliveries: original {a}, immediate echo {b}, next message {c}, its echo {e}, repetition after 200 ms {f}")
    if b == 0 and e == 0:
        print("RESULT: an immediate echo of a whole message is recognised by its first frame and delivered only once")
    else:
        print("RESULT: an immediate echo of a whole message is delivered a second time")
    assert a == 1 and c == 1 and f == 1


if __name__ == "__main__":
    main()
