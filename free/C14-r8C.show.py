"""show_C: what the application sees while close() is reporting CLOSED to a slow status callback.

A gateway streams one frame every 10 ms.  The status callback takes 0.5 s to handle CLOSED.
Printed: was the link already shut when CLOSED was reported, how long after the close() call the gateway
saw the hang-up, and how many receive callbacks were started after the CLOSED report began.
Also checks what the property fixes (nothing received after close() returned, tasks done).  Exits 0 on every tree.
"""
import asyncio
import logging
import time

from nmea2000.ioclient import YachtDevicesNmea2000Gateway, State

logging.disable(logging.CRITICAL)
LINE = b"00:01:54.430 R 15F11910 00 00 00 E5 0B 1D FF FF\r\n"


async def main():
    hangup_at = []
    peers = []

    async def on_client(reader, writer):
        peers.append(writer)

        async def pump():
            try:
                while True:
                    writer.write(LINE)
                    await writer.drain()
                    await asyncio.sleep(0.01)
            except Exception:
                pass
        p = asyncio.create_task(pump())
        try:
            while await reader.read(1000):
                pass
        except Exception:
            pass
        hangup_at.append(time.monotonic())
        p.cancel()

    server = await asyncio.start_server(on_client, "127.0.0.1", 0)
    port = server.sockets[0].getsockname()[1]

    client = YachtDevicesNmea2000Gateway("127.0.0.1", port)
    log = []
    facts = {}

    async def on_status(state):
        log.append(("status", state.name, time.monotonic()))
        if state == State.CLOSED:
            facts["state_in_callback"] = client.state.name
            facts["link_shut_in_callback"] = client.writer.is_closing()
            await asyncio.sleep(0.5)            # a slow listener
            facts["rx_during_callback"] = sum(1 for e in log if e[0] == "rx" and e[2] > log_closed_at())

    def log_closed_at():
        return next(e[2] for e in log if e[0] == "status" and e[1] == "CLOSED")

    async def on_rx(msg):
        log.append(("rx", msg.PGN, time.monotonic()))

    client.set_status_callback(on_status)
    client.set_receive_callback(on_rx)
    await client.connect()
    await asyncio.sleep(0.2)
    before = sum(1 for e in log if e[0] == "rx")
    t0 = time.monotonic()
    await client.close()
    t1 = time.monotonic()
    await asyncio.sleep(0.3)

    rx_after_return = sum(1 for e in log if e[0] == "rx" and e[2] > t1)
    print(f"frames delivered before close(): {before}")
    print(f"status callbacks: {' > '.join(e[1] for e in log if e[0] == 'status')}")
    print(f"CLOSED reported {1000 * (log_closed_at() - t0):.0f} ms after the close() call; state seen by the listener: {facts['state_in_callback']}")
    print(f"link already shut when CLOSED was reported : {facts['link_shut_in_callback']}")
    print(f"gateway saw the hang-up after              : {1000 * (hangup_at[0] - t0):.0f} ms  (close() took {1000 * (t1 - t0):.0f} ms)")
    print(f"receive callbacks started during the 0.5 s the listener handled CLOSED: {facts['rx_during_callback']}")
    print(f"receive callbacks after close() returned   : {rx_after_return}")
    tasks_done = client._process_queue_task.done() and client._receive_task.done()
    print(f"background tasks finished: {tasks_done} | state: {client.state.name}")
    assert rx_after_return == 0 and tasks_done and client.state == State.CLOSED and client.writer.is_closing()
    server.close()


asyncio.run(main())
