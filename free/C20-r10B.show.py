"""show_B: which moment does message.timestamp of the serial client show?

clean tree : the moment each single packet was decoded (datetime.now() inside decode_usb)
change B   : the moment the read that completed the packet returned - one stamp per read
Exits 0 on both trees.
"""
import asyncio
import inspect
import logging
from datetime import datetime

from nmea2000.decoder import NMEA2000Decoder
from nmea2000.ioclient import WaveShareNmea2000Gateway

logging.disable(logging.CRITICAL)
BASE = bytes.fromhex("aa550102010900ff1c083f9fdcffffffffff00e5")


def packet(i: int) -> bytes:
    p = bytearray(BASE)
    p[10] = i
    p[19] = sum(p[2:19]) & 0xFF
    return bytes(p)


class FakeReader:
    def __init__(self, chunks):
        self.chunks = list(chunks)
        self.finished = asyncio.Event()

    async def read(self, n):
        if not self.chunks:
            self.finished.set()
            await asyncio.Event().wait()
        await asyncio.sleep(0.05)              # the line is quiet for 50 ms between reads
        return self.chunks.pop(0)


async def main():
    print("decode_usb signature:", inspect.signature(NMEA2000Decoder.decode_usb))
    fixed = datetime(2020, 1, 2, 3, 4, 5)
    try:
        m = NMEA2000Decoder().decode_usb(packet(1), timestamp=fixed)
        print("decode_usb(packet, timestamp=2020-01-02 03:04:05) ->", m.timestamp)
    except TypeError as e:
        print("decode_usb(packet, timestamp=...) -> TypeError:", e)

    # read 1: five packets at once; read 2: 2.5 packets; read 3: the other half + one more
    p = [packet(i) for i in range(9)]
    chunks = [b"".join(p[0:5]), p[5] + p[6] + p[7][:10], p[7][10:] + p[8]]
    client = WaveShareNmea2000Gateway("dummy-port")
    client._buffer = bytearray()
    reader = FakeReader(chunks)
    client.reader = reader
    stamps = []

    async def cb(msg):
        stamps.append(msg.timestamp)
    client.set_receive_callback(cb)
    client._receive_task = asyncio.create_task(client._receive_loop())
    await asyncio.wait_for(reader.finished.wait(), 10)
    await client.queue.join()
    await client.close()

    print(f"{len(stamps)} messages delivered")
    groups = [stamps[0:5], stamps[5:7], stamps[7:9]]
    for n, g in enumerate(groups, 1):
        print(f"read {n}: {len(g)} messages, {len(set(g))} distinct timestamp(s): "
              + ", ".join(t.strftime('%S.%f') for t in g))
    print("all messages of one read carry the same timestamp:",
          all(len(set(g)) == 1 for g in groups))
    print("timestamps never go backwards:", stamps == sorted(stamps))


asyncio.run(main())
