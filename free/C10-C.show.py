"""Change C: when a known NAME claims a new address, its former address is dropped from the source map.

A device (NAME X) claims address 5, sends wind data, then re-claims at address 9; afterwards some
other, still unknown talker uses address 5. The program prints, for an unfiltered decoder and for
decoders whose filters drop the address claims, the NAME attached to every returned message and
the final source map. Clean tree: address 5 stays attributed to X for ever. Changed tree: address 5
is forgotten. On BOTH trees the filtered decoders agree with the unfiltered one (property C10).
Exits 0 on the clean and on the changed tree.
"""
import logging

from nmea2000.decoder import NMEA2000Decoder

logging.disable(logging.CRITICAL)

TS = "2022-09-10T12:10:16.614Z"
NAME_X = "fb,9b,70,22,00,9b,50,c0"
NAME_Y = "f5,01,c0,2c,ef,aa,46,c0"
HISTORY = [
    ("claim X @5", f"{TS},6,60928,5,255,8,{NAME_X}"),
    ("wind   @5", f"{TS},2,130306,5,255,8,00,10,00,20,30,02,ff,ff"),
    ("claim Y @6", f"{TS},6,60928,6,255,8,{NAME_Y}"),
    ("claim X @9", f"{TS},6,60928,9,255,8,{NAME_X}"),
    ("wind   @9", f"{TS},2,130306,9,255,8,01,11,00,21,30,02,ff,ff"),
    ("wind   @5", f"{TS},2,130306,5,255,8,02,12,00,22,30,02,ff,ff"),
    ("wind   @6", f"{TS},2,130306,6,255,8,03,13,00,23,30,02,ff,ff"),
]


def short(n):
    return "none" if n is None else ("X" if n.name == 13857746478299126779 else "Y")


def run(label, **kw):
    dec = NMEA2000Decoder(**kw)
    cells = []
    for what, line in HISTORY:
        m = dec.decode_basic_string(line)
        cells.append(f"{what}: " + ("-" if m is None else f"{m.id}[{short(m.source_iso_name)}]"))
    print(label)
    for c in cells:
        print("    ", c)
    print("     source map:", {a: short(n) for a, n in sorted(dec.source_to_iso_name.items())})
    return cells, {a: n.name for a, n in dec.source_to_iso_name.items()}


plain, plain_map = run("no filter")
for label, kw in (("exclude_pgns=[60928]", dict(exclude_pgns=[60928])),
                  ("include_pgns=['WindData']", dict(include_pgns=["WindData"]))):
    cells, m = run(label, **kw)
    same = all(c == p for c, p in zip(cells, plain) if not c.endswith(": -")) and m == plain_map
    print("     delivered messages and source map agree with the unfiltered decoder:", same)
