"""show_C: raw_can_data of a message reassembled from several fast-packet frames.

clean tree  : msg.raw_can_data is the raw input of the one frame that happened to complete the message.
changed tree: msg.raw_can_data holds the raw input of all frames of the message in frame order
              (text lines joined by a newline, binary packets concatenated); it can be replayed.

Single-frame messages are unchanged. In both trees the value depends only on the frames of the
message itself: the same probe gives the same raw_can_data (and the same fields) on a new decoder
and on one that has an unfinished message, duplicates and garbage behind it.
"""
import logging
from nmea2000.decoder import NMEA2000Decoder
from nmea2000.encoder import NMEA2000Encoder

logging.disable(logging.CRITICAL)

PREFIX = "2022-09-28-11:36:59.668,3,129029,0,255,8,"
BODY = ["2f,e7,95,3d,00,73,d6", "29,00,da,04,73,db,c9", "e5,05,80,7d,02,28,5f", "d6,10,f6,9b,50,6c,05",
        "00,00,00,00,13,fc,08", "6f,00,be,00,dd,f2,ff", "ff,00,ff,ff,ff,ff,ff"]


def frames(seq):
    return [PREFIX + "%02x," % ((seq << 5) | i) + b for i, b in enumerate(BODY)]


def last(dec, fn, items):
    res = None
    for it in items:
        try:
            r = fn(dec, it)
        except Exception:
            r = None
        res = r if r is not None else res
    return res


basic = lambda d, x: d.decode_basic_string(x)
tcp = lambda d, x: d.decode_tcp(x)

# 1. text input
probe = frames(1)
fresh = last(NMEA2000Decoder(), basic, probe)
print("text probe, raw_can_data on a new decoder (%d line(s)):" % len(fresh.raw_can_data.split("\n")))
print("   " + fresh.raw_can_data.replace("\n", "\n   "))

used = NMEA2000Decoder()
hist = frames(0)[:4] + [frames(0)[2]] + ["garbage", PREFIX + "00", "2022-09-28-11:36:59.668,3,99999,0,255,8,00,2f,e7,95,3d,00,73,d6"]
last(used, basic, hist)
after = last(used, basic, probe)
print("same probe after an unfinished message + duplicate + garbage: raw_can_data equal:",
      after.raw_can_data == fresh.raw_can_data, "| fields equal:", after.to_string_test_style() == fresh.to_string_test_style())

# out of order delivery: still deterministic, frame order
shuffled = [probe[i] for i in (0, 3, 1, 6, 2, 5, 4)]
sh = last(NMEA2000Decoder(), basic, shuffled)
print("probe delivered out of order: fields equal:", sh.to_string_test_style() == fresh.to_string_test_style(),
      "| raw_can_data lines:", len(sh.raw_can_data.split("\n")))

# 2. binary input
packets = NMEA2000Encoder().encode_ebyte(fresh)
b = last(NMEA2000Decoder(), tcp, packets)
print("binary probe: %d packets of %d bytes, raw_can_data is %d bytes" % (len(packets), len(packets[0]), len(b.raw_can_data)))

# 3. single frame message: unchanged
single = "2022-09-28-11:36:59.668,5,130311,35,255,8,c5,c0,1c,6e,ff,7f,ff,ff"
print("single-frame message raw_can_data is its own line:", NMEA2000Decoder().decode_basic_string(single).raw_can_data == single)

if fresh.raw_can_data == probe[-1] and b.raw_can_data == packets[-1]:
    print("BEHAVIOUR: raw_can_data of a reassembled message = the completing frame only (clean tree)")
elif fresh.raw_can_data == "\n".join(probe) and b.raw_can_data == b"".join(packets):
    print("BEHAVIOUR: raw_can_data of a reassembled message = all its frames in frame order (changed tree)")
    replay = last(NMEA2000Decoder(), basic, fresh.raw_can_data.split("\n"))
    print("           replaying raw_can_data gives the same message:", replay.to_string_test_style() == fresh.to_string_test_style())
else:
    print("BEHAVIOUR: other")
