"""show_C: how many incomplete fast-packet messages does a decoder keep at the same time?

clean tree  : every (PGN, source, destination) stream keeps its incomplete message for ever: 12 devices that send
              the first half of a message each, and then the second half each, give 12 messages
changed tree: at most max_pending_fast_packets (default 8) incomplete messages are kept; when a 9th one starts, the
              one that has been waiting longest for a frame is dropped (warning in the log): the same traffic gives
              8 messages, the 4 oldest streams are lost. NMEA2000Decoder(max_pending_fast_packets=None) is the old
              behaviour.

Frames that are ignored or rejected never take or refresh a place, and a complete message with a fresh sequence
counter, a single frame message, and the same history given twice decode the same in both trees.
Exits 0 on both trees.
"""
import inspect
import logging

from nmea2000.decoder import NMEA2000Decoder
from nmea2000.encoder import NMEA2000Encoder

logging.disable(logging.CRITICAL)

HAS_OPTION = "max_pending_fast_packets" in inspect.signature(NMEA2000Decoder.__init__).parameters
print("constructor has max_pending_fast_packets:", HAS_OPTION)

GNSS = NMEA2000Decoder().decode_basic_string(
    "2022-09-28-11:36:59.668,3,129029,0,255,43,e7,95,3d,00,73,d6,29,00,da,04,73,db,c9,e5,05,80,7d,02,28,5f,d6,10,f6,9b,50,6c,05,"
    "00,00,00,00,13,fc,08,6f,00,be,00,dd,f2,ff,ff,00", already_combined=True)
assert GNSS is not None
SINGLE = bytes.fromhex("88") + ((2 << 26) | (127250 << 8) | 5).to_bytes(4, "big") + bytes.fromhex("01102700000000fd")


def frames_from(src, seq=0):
    enc = NMEA2000Encoder()
    enc.sequence_counter = seq
    GNSS.source = src
    return enc.encode_ebyte(GNSS)   # 7 frames


def view(msg):
    return None if msg is None else (msg.PGN, msg.id, msg.source, msg.destination, msg.priority,
                                     [(f.id, f.value, f.raw_value) for f in msg.fields])


def run(dec, packets):
    out = []
    for p in packets:
        try:
            out.append(("ok", view(dec.decode_tcp(p))))
        except Exception as e:  # noqa: BLE001
            out.append(("err", type(e).__name__))
    return out


def sources_decoded(results):
    return [r[1][2] for r in results if r[0] == "ok" and r[1] is not None]


N = 12
first_halves = [f for src in range(N) for f in frames_from(src)[:3]]
second_halves = [f for src in range(N) for f in frames_from(src)[3:]]

dec = NMEA2000Decoder()
res = run(dec, first_halves + second_halves)
print(f"{N} interleaved senders, default decoder: messages decoded from sources", sources_decoded(res))

if HAS_OPTION:
    res = run(NMEA2000Decoder(max_pending_fast_packets=None), first_halves + second_halves)
    print(f"{N} interleaved senders, max_pending_fast_packets=None: sources", sources_decoded(res))
    res = run(NMEA2000Decoder(max_pending_fast_packets=2), first_halves + second_halves)
    print(f"{N} interleaved senders, max_pending_fast_packets=2: sources", sources_decoded(res))

# ignored / rejected frames do not take a place: 5 senders in the middle of a message, then a flood of frames that are
# ignored (continuation frames of messages whose first frame was never seen, from 40 other sources; repeated frames;
# frames of another sequence) or rejected (no data bytes), then the 5 senders finish.
five_first = [f for src in range(5) for f in frames_from(src)[:3]]
five_second = [f for src in range(5) for f in frames_from(src)[3:]]
flood = [frames_from(100 + k, seq=3)[4] for k in range(40)]           # stray continuation frames
flood += [frames_from(src)[1] for src in range(5)]                     # repeated frames
flood += [frames_from(src, seq=5)[2] for src in range(5)]              # other sequence counter
flood += [bytes([0x80]) + ((3 << 26) | (129029 << 8) | (200 + k)).to_bytes(4, "big") + bytes(8) for k in range(10)]  # 0 data bytes
res_with = run(NMEA2000Decoder(), five_first + flood + five_second)
res_without = run(NMEA2000Decoder(), five_first + five_second)
print("5 senders, flood of ignored/rejected frames in the middle: sources", sources_decoded(res_with),
      "| without the flood:", sources_decoded(res_without))
assert sources_decoded(res_with) == sources_decoded(res_without) == [0, 1, 2, 3, 4]
assert res_with[:len(five_first)] + res_with[len(five_first) + len(flood):] == res_without

# the property, after the history that overflows the limit (and leaves several incomplete messages behind)
history = first_halves + second_halves[: 4 * 6] + first_halves
probe_fast = frames_from(3, seq=6)      # source 3 has an incomplete message with sequence 0 pending -> 6 is fresh
d1, bystander = NMEA2000Decoder(), NMEA2000Decoder()
r1 = run(d1, history)
p_single, p_fast = run(d1, [SINGLE]), run(d1, probe_fast)
r2 = run(NMEA2000Decoder(), history)
new = NMEA2000Decoder()
assert r1 == r2, "same history, different results"
assert p_single == run(new, [SINGLE]) == run(bystander, [SINGLE]) and p_single[0][1] is not None
assert p_fast == run(new, probe_fast) == run(bystander, probe_fast) and p_fast[-1][1] is not None
print("after the overflowing history: single-frame probe and fresh fast-packet probe decode as on a new decoder;"
      " same history twice gives the same results: True")
