"""show_B: how is a single CAN frame with fewer than 8 data bytes decoded?

clean tree  : the bytes that were not transmitted count as 0x00 -> fields decode as real values 0 / first lookup entry
changed tree: the bytes that were not transmitted count as 0xFF (the NMEA 2000 fill byte) -> unsigned and lookup
              fields decode as "not available" (None), signed fields as -1 LSB, reserved bits as all ones; a frame
              cut in the middle of a field can now be out of range (ValueError)

Full 8-byte frames, and what any decoder returns later, are the same in both trees.
Exits 0 on both trees.
"""
import logging

from nmea2000.decoder import NMEA2000Decoder

logging.disable(logging.CRITICAL)


def view(msg):
    return None if msg is None else (msg.PGN, msg.id, msg.source, msg.destination, msg.priority,
                                     [(f.id, f.value, f.raw_value) for f in msg.fields])


def tcp_packet(pgn, src, prio, data: bytes) -> bytes:
    """EBYTE/ECAN 13 byte packet with a data length nibble (PDU2 PGNs only)."""
    frame_id = (prio << 26) | (pgn << 8) | src
    return bytes([0x80 | len(data)]) + frame_id.to_bytes(4, "big") + data + bytes(8 - len(data))


def outcome(decoder, packet):
    try:
        msg = decoder.decode_tcp(packet)
    except Exception as e:  # noqa: BLE001
        return f"raised {type(e).__name__}: {e}"
    if msg is None:
        return "returned None"
    return ", ".join(f"{f.id}={f.value!r}" for f in msg.fields)


FULL = bytes.fromhex("01102700000000fd")  # 127250 Vessel Heading: sid 1, heading 1.0 rad, dev 0, var 0, reference Magnetic

d = NMEA2000Decoder()
for n in (8, 3, 1, 0):
    print(f"127250 with {n} data bytes -> {outcome(d, tcp_packet(127250, 9, 2, FULL[:n]))}")
print(f"127250 with 2 data bytes (cut in the middle of 'heading') -> {outcome(d, tcp_packet(127250, 9, 2, FULL[:2]))}")
print(f"127245 Rudder with 0 data bytes -> {outcome(d, tcp_packet(127245, 9, 2, b''))}")

# The property: truncated frames are stateless; a decoder that saw them answers a probe like a new one,
# another decoder alive at the same time is not affected, and the same history gives the same results.
history = [tcp_packet(127250, 9, 2, FULL[:n]) for n in (0, 1, 2, 3)] + \
          [tcp_packet(127245, 9, 2, b""), tcp_packet(60928 | 0, 9, 6, b"")]
probe = tcp_packet(127250, 9, 2, FULL)


def run(hist):
    dec = NMEA2000Decoder()
    out = []
    for p in hist:
        try:
            out.append(("ok", view(dec.decode_tcp(p))))
        except Exception as e:  # noqa: BLE001
            out.append(("err", type(e).__name__, str(e)))
    return out


other = NMEA2000Decoder()
r1 = run(history + [probe])
other_probe = view(other.decode_tcp(probe))
r2 = run(history + [probe])
r0 = run([probe])
assert r1 == r2, "same history, different results"
assert r1[-1] == r0[-1] == ("ok", other_probe), "probe decoded differently after truncated frames"
print("probe after truncated frames == probe on a new decoder == probe on a bystander decoder:", True)
print("probe:", r0[-1][1][5])
