"""show_C: the pace at which connect() retries a gateway that is down.

connect() is started against a TCP port on which nothing listens (every attempt is refused at once).
After 5.2 s close() is called while connect() sleeps between two attempts; at the same moment a
listener is opened on the port, so an attempt made after close() would be seen.

Prints when the attempts were made, the waits announced between them, when the connect() call
returned after close(), and what happened after close(). Exits 0 on every tree.
Run with --long to watch 75 s instead and see the longest wait the back-off reaches.
"""
import asyncio
import logging
import socket
import sys

from nmea2000.ioclient import EByteNmea2000Gateway

WATCH = 75.0 if "--long" in sys.argv else 5.2


class Tap(logging.Handler):
    def __init__(self, loop):
        super().__init__(logging.INFO)
        self.loop, self.t0 = loop, loop.time()
        self.attempts, self.waits = [], []

    def emit(self, record):
        text = record.getMessage()
        if text.startswith("Connecting to "):
            self.attempts.append(round(self.loop.time() - self.t0, 2))
        elif text.startswith("Retrying due to error"):
            self.waits.append(round(record.args[1], 2))


async def main():
    loop = asyncio.get_running_loop()
    s = socket.socket()
    s.bind(("127.0.0.1", 0))
    port = s.getsockname()[1]
    s.close()                      # nothing listens on this port now

    tap = Tap(loop)
    log = logging.getLogger("nmea2000.ioclient")
    log.setLevel(logging.INFO)
    log.propagate = False
    log.addHandler(tap)

    states = []

    async def on_status(state):
        states.append(state.name)

    client = EByteNmea2000Gateway("127.0.0.1", port)
    client.set_status_callback(on_status)
    connecting = asyncio.create_task(client.connect())
    await asyncio.sleep(WATCH)

    print(f"attempts made in the first {WATCH} s at t = {tap.attempts}")
    print(f"waits announced between them (s)      = {tap.waits}")

    accepted = []

    async def late_gateway(reader, writer):
        accepted.append(round(loop.time() - tap.t0, 2))
        writer.close()

    n_attempts = len(tap.attempts)
    t_close = loop.time()
    await client.close()
    server = await asyncio.start_server(late_gateway, "127.0.0.1", port)
    print(f"close() at t = {t_close - tap.t0:.2f}: returned after {loop.time() - t_close:.2f} s, state {client.state.name}")
    await asyncio.wait({connecting}, timeout=40)
    print(f"the connect() call that was waiting returned {loop.time() - t_close:.2f} s after close(): {connecting.done()}")
    await asyncio.sleep(0.2)
    print(f"after close(): attempts {len(tap.attempts) - n_attempts}, connections seen by the late listener {len(accepted)}, "
          f"state {client.state.name}, status notifications {states}, "
          f"background tasks finished {client._process_queue_task.done() and client._receive_task is None}")
    server.close()


asyncio.run(main())
