"""show_C: what does the serial client WRITE to the adapter while it receives garbage?

clean tree : nothing, however long the garbage lasts
change C   : after 200 garbage bytes without one good packet it sends the 20-byte configuration packet
             again (then after 400 more, 800 more, ...; a good packet resets the distance to 200)
What is delivered to the receive callback is the same on both trees.
Exits 0 on both trees.
"""
import asyncio
import logging
import random

from nmea2000.ioclient import WaveShareNmea2000Gateway

BASE = bytes.fromhex("aa550102010900ff1c083f9fdcffffffffff00e5")


def packet(i: int) -> bytes:
    p = bytearray(BASE)
    p[10] = i
    p[19] = sum(p[2:19]) & 0xFF
    return bytes(p)


def garbage(rng, n):
    b = bytearray(rng.randrange(256) for _ in range(n))
    while b"\xaa\x55" in b:
        b = b.replace(b"\xaa\x55", b"\xaa\x54")
    b[0] = 0x00
    b[-1] = 0x00
    return bytes(b)


class FakeReader:
    def __init__(self, data):
        self.data = data
        self.pos = 0
        self.finished = asyncio.Event()

    async def read(self, n):
        if self.pos >= len(self.data):
            self.finished.set()
            await asyncio.Event().wait()
        await asyncio.sleep(0)
        chunk = self.data[self.pos:self.pos + n]
        self.pos += len(chunk)
        return chunk


class FakeWriter:
    def __init__(self, reader):
        self.reader = reader
        self.writes = []

    def write(self, data):
        self.writes.append((self.reader.pos, bytes(data)))

    async def drain(self):
        pass

    def close(self):
        pass

    def is_closing(self):
        return False


class Warnings(logging.Handler):
    def __init__(self):
        super().__init__(logging.WARNING)
        self.lines = []

    def emit(self, record):
        self.lines.append(record.getMessage())


async def main():
    rng = random.Random(7)
    parts = [("3 good packets", b"".join(packet(i) for i in range(3))),
             ("150 bytes of garbage", garbage(rng, 150)),
             ("2 good packets", packet(3) + packet(4)),
             ("1700 bytes of garbage", garbage(rng, 1700)),
             ("2 good packets", packet(5) + packet(6)),
             ("300 bytes of garbage", garbage(rng, 300)),
             ("1 good packet", packet(7))]
    off = 0
    print("the stream:")
    for name, data in parts:
        print(f"  bytes {off:5d}..{off + len(data) - 1:5d}: {name}")
        off += len(data)

    handler = Warnings()
    logging.getLogger("nmea2000.ioclient").addHandler(handler)
    logging.getLogger("nmea2000.decoder").setLevel(logging.CRITICAL)

    client = WaveShareNmea2000Gateway("dummy-port")
    client._buffer = bytearray()
    reader = FakeReader(b"".join(d for _, d in parts))
    writer = FakeWriter(reader)
    client.reader = reader
    client.writer = writer
    got = []

    async def cb(msg):
        got.append(bytes(msg.raw_can_data))
    client.set_receive_callback(cb)
    client._receive_task = asyncio.create_task(client._receive_loop())
    await asyncio.wait_for(reader.finished.wait(), 10)
    await client.queue.join()

    print(f"delivered packets: {[g[10] for g in got]}  (all 8 good packets: {got == [packet(i) for i in range(8)]})")
    print(f"writes to the adapter while receiving: {len(writer.writes)}")
    for pos, data in writer.writes:
        print(f"  after {pos:5d} received bytes: {data.hex()}")
    print(f"reconfigure_count attribute: {getattr(client, 'reconfigure_count', '(no such attribute)')}")
    print(f"warnings logged by the client: {len(handler.lines)}")
    for line in handler.lines:
        print("  " + line)
    await client.close()


asyncio.run(main())
