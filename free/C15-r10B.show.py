"""show_B: a dump filter (dump_pgns) given WITHOUT a dump file (dump_to_file).
Clean tree: accepted silently, nothing is ever recorded.  Changed tree: ValueError at construction.
With a dump file the behaviour (what the property describes) is the same on both trees."""
import os
import tempfile
from nmea2000.decoder import NMEA2000Decoder

FRAME = "A000057.055 09FF7 0FF00 3F9FDCFFFFFFFFFF"      # PGN 65280 furunoHeave

def attempt(label, factory):
    try:
        obj = factory()
    except ValueError as e:
        print("  %-58s -> ValueError: %s" % (label, e))
        return "rejected"
    print("  %-58s -> accepted" % label)
    obj.close()
    return "accepted"

print("dump filter without a dump file:")
r = [attempt("NMEA2000Decoder(dump_pgns=[65280])", lambda: NMEA2000Decoder(dump_pgns=[65280])),
     attempt("NMEA2000Decoder(dump_pgns=['furunoHeave'])", lambda: NMEA2000Decoder(dump_pgns=["furunoHeave"])),
     attempt("NMEA2000Decoder(dump_to_file='', dump_pgns=[65280])", lambda: NMEA2000Decoder(dump_to_file="", dump_pgns=[65280]))]
print("no filter / empty filter without a dump file (always fine):")
r2 = [attempt("NMEA2000Decoder()", lambda: NMEA2000Decoder()),
      attempt("NMEA2000Decoder(dump_pgns=[])", lambda: NMEA2000Decoder(dump_pgns=[])),
      attempt("NMEA2000Decoder(dump_pgns=None)", lambda: NMEA2000Decoder(dump_pgns=None))]
assert r2 == ["accepted"] * 3
assert len(set(r)) == 1
print("BEHAVIOUR:", "filter without file is a configuration error" if r[0] == "rejected" else "filter without file is silently ignored")

# with dumping enabled nothing changes: the file holds exactly the JSON of the matching returned messages
tmp = tempfile.mkdtemp()
for filt in ([], [65280], ["FURUNOHEAVE"], [127250], [127250, "furunoHeave"]):
    path = os.path.join(tmp, "dump_%s.jsonl" % "_".join(map(str, filt)))
    with NMEA2000Decoder(dump_to_file=path, dump_pgns=filt) as dec:
        msgs = [dec.decode_actisense_string(FRAME), dec.decode_basic_string("2012-06-17-15:02:11.000,6,59904,0,255,3,14,f0,01")]
    ints, ids = NMEA2000Decoder.split_pgn_list(filt)
    expected = [m.to_json() for m in msgs if not filt or m.PGN in ints or m.id.lower() in ids]
    with open(path) as fh:
        lines = fh.read().splitlines()
    print("  filter %-26r dump lines: %d, equal to the JSON of the matching returned messages: %s" % (filt, len(lines), lines == expected))
    assert lines == expected
