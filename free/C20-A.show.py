"""show_A: a packet that lost bytes on the wire is followed by intact packets.
Prints which packets are delivered. Clean tree: the packet right after the truncated one is lost
(its first bytes are swallowed by the 20-byte window of the truncated one). Changed tree (A): it is
delivered. Both are allowed by C20 ("at most the first following packet is lost")."""
import asyncio, logging, sys
logging.disable(logging.CRITICAL)
from nmea2000.ioclient import WaveShareNmea2000Gateway
from nmea2000.utils import calculate_canbus_checksum

BASE = bytearray.fromhex("aa550102010900ff1c083f9fdcffffffffff00e5")

def pkt(tag):
    p = bytearray(BASE)
    p[17] = tag
    p[19] = calculate_canbus_checksum(p)
    assert b"\xaa\x55" not in p[2:]
    return bytes(p)

class Reader:
    def __init__(self, segs):
        self.segs = list(segs)
    async def read(self, n):
        return self.segs.pop(0) if self.segs else b""

async def run(name, stream, seg):
    c = WaveShareNmea2000Gateway("/dev/null")
    got = []
    async def cb(m):
        got.append(m.fields[-1].raw_value >> 8)
    c.set_receive_callback(cb)
    c._buffer = bytearray()
    segs = [stream[i:i + seg] for i in range(0, len(stream), seg)]
    c.reader = Reader(segs)
    held = 0
    for _ in segs:
        await c._receive_impl()
        held = max(held, len(c._buffer))
    await asyncio.sleep(0.01)
    await c.close()
    print(f"{name:<46} read size {seg:>3}: delivered tags {got}  max held {held}")
    return got

async def main():
    trunc = pkt(1) + pkt(2)[:11] + pkt(3) + pkt(4) + pkt(5)
    bad = bytearray(pkt(2)); bad[12] ^= 0x10
    corrupt = pkt(1) + bytes(bad) + pkt(3) + pkt(4)
    marker_noise = pkt(1) + b"\x01\xaa\x55\x02\x03" + pkt(3) + pkt(4) + pkt(5)
    clean_noise = pkt(1) + b"\x00\x55\xaa\x11\xaa" + pkt(3) + pkt(4)
    for seg in (1, 7, 100):
        a = await run("P1, P2 cut to 11 bytes, P3, P4, P5", trunc, seg)
        b = await run("P1, P2 with a flipped bit, P3, P4", corrupt, seg)
        c = await run("P1, noise with a marker, P3, P4, P5", marker_noise, seg)
        d = await run("P1, marker-free noise ending in 0xAA, P3, P4", clean_noise, seg)
        # what C20 demands, on either tree
        assert a[0] == 1 and a[-2:] == [4, 5] and 2 not in a
        assert b == [1, 3, 4]
        assert c[0] == 1 and c[-2:] == [4, 5]
        assert d == [1, 3, 4]
    print("packet right after the truncated one:", "DELIVERED (changed tree A)" if 3 in a else "lost (clean tree)")

asyncio.run(main())
sys.exit(0)
