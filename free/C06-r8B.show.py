"""show_B: what do the two text decoders do with a line that has NO receive prefix?

The Yacht Devices and Actisense encoders write the transmit form of a line (no 'hh:mm:ss.mmm R' /
'Asssss.mmm' token in front). This program feeds that bare encoder output, and the same line with
the prefix the gateway adds on reception, to the matching decoder and prints what happens.
Exits 0 on the clean and on the changed tree; only the treatment of the bare line differs.
"""
import sys

from nmea2000.decoder import NMEA2000Decoder
from nmea2000.encoder import NMEA2000Encoder


def values(msg):
    return (msg.PGN, msg.source, msg.destination, msg.priority,
            [(f.id, f.value, f.raw_value) for f in msg.fields])


def attempt(decode, text):
    try:
        msg = decode(text)
    except Exception as e:  # noqa: BLE001 - we want to print whatever is raised
        return None, f"rejected: {type(e).__name__}: {e}"
    if msg is None:
        return None, "ignored (None)"
    return msg, f"accepted: PGN {msg.PGN} src {msg.source} dst {msg.destination} prio {msg.priority} timestamp {msg.timestamp.isoformat()}"


def main():
    src = NMEA2000Decoder()
    single = src.decode_actisense_string("A000057.055 09FF7 0FF00 3F9FDCFFFFFFFFFF")
    fast = src.decode_actisense_string(
        "A000057.063 09FF7 1FF1A 3F9F24000000FFFFFFFFEFFFFFFF009AFFFFFFADFFFFFF050000000000")
    assert single is not None and fast is not None
    ok = True
    for label, msg in (("single frame PGN %d" % single.PGN, single), ("fast packet PGN %d" % fast.PGN, fast)):
        print(f"== {label}")
        enc = NMEA2000Encoder()

        # Actisense N2K ASCII
        sentence = enc.encode_actisense(msg)
        shown = sentence if len(sentence) < 60 else sentence[:57] + "..."
        got, text = attempt(NMEA2000Decoder().decode_actisense_string, sentence)
        print(f"  actisense bare      '{shown}'\n      -> {text}")
        if got is not None:
            ok = ok and values(got) == values(msg)
        got, text = attempt(NMEA2000Decoder().decode_actisense_string, "A000000.000 " + sentence)
        print(f"  actisense prefixed  'A000000.000 {shown}'\n      -> {text}")
        ok = ok and got is not None and values(got) == values(msg)

        # Yacht Devices RAW
        for prefix, name in (("", "bare    "), ("12:34:56.789 R ", "prefixed")):
            dec = NMEA2000Decoder()
            results = []
            got = None
            for packet in enc.encode_yacht_devices(msg):
                line = prefix + packet.decode()
                m, text = attempt(dec.decode_yacht_devices_string, line)
                results.append((line.strip(), text))
                got = m or got
            first_line, _ = results[0]
            print(f"  yacht devices {name}  '{first_line}' ({len(results)} line(s))")
            for text in sorted({t for _, t in results}):
                print(f"      -> {text}")
            if prefix:
                ok = ok and got is not None and values(got) == values(msg)
            elif got is not None:
                ok = ok and values(got) == values(msg)

    # Lines that are neither form stay rejected on both trees
    print("== malformed lines")
    for decode_name, line in (("decode_yacht_devices_string", "12:34:56.789 X 09F80101 FF FF"),
                              ("decode_yacht_devices_string", "R 09F80101 FF FF"),
                              ("decode_yacht_devices_string", "09F80101"),
                              ("decode_actisense_string", "B000057.055 09FF7 0FF00 3F9FDCFFFFFFFFFF"),
                              ("decode_actisense_string", "09FF7 0FF00")):
        _, text = attempt(getattr(NMEA2000Decoder(), decode_name), line)
        print(f"  {decode_name}('{line}') -> {text}")
        ok = ok and text.startswith("rejected")
    print("prefixed lines round-trip ok" if ok else "PROBLEM")
    return 0 if ok else 1


if __name__ == "__main__":
    sys.exit(main())
