"""show_B: payloads longer than a fast-packet message can carry (more than 223 bytes), which is
outside the lengths 0..223 the property talks about.
Clean tree: the encoder silently produces frames whose frame counter overflows into the sequence
counter bits (frame 32 looks like frame 0 of another sequence), and a decoder that sees
a first frame announcing more than 223 bytes keeps a reassembly buffer that can never complete.
Changed tree: the encoder raises a clear ValueError and consumes no sequence number; the decoder
logs a warning and keeps no buffer."""
import logging
from nmea2000.encoder import NMEA2000Encoder
from nmea2000.decoder import NMEA2000Decoder

logging.basicConfig(level=logging.WARNING, format="  log: %(levelname)s %(message)s")
PGN = 129029

print("--- encoder, 223 bytes (inside the property's range) ---")
enc = NMEA2000Encoder()
frames = enc._encode_fast_message(PGN, 3, 7, 255, bytes(223))
print("frames:", len(frames), "last header byte: 0x%02x" % frames[-1][0], "sequence_counter after:", enc.sequence_counter)

for seq in (0, 7):
    print(f"--- encoder, 224 bytes, sequence counter {seq} ---")
    enc = NMEA2000Encoder()
    enc.sequence_counter = seq
    try:
        frames = enc._encode_fast_message(PGN, 3, 7, 255, bytes(224))
        hdr = frames[-1][0]
        print(f"returned {len(frames)} frames; header of the last one 0x{hdr:02x} = sequence {hdr >> 5}, frame {hdr & 0x1F}; announced length {frames[0][1]}")
    except Exception as e:
        print("raised", type(e).__name__ + ":", e)
    print("sequence_counter after:", enc.sequence_counter)

print("--- decoder, first frame announcing 250 bytes ---")
dec = NMEA2000Decoder()
frame0 = bytes([0x00, 250]) + bytes(6)
frame_id = (3 << 26) | (PGN << 8) | 7
r = dec.decode_tcp(bytes([0x88]) + frame_id.to_bytes(4, "big") + frame0)
print("returned:", r, "| reassembly buffers kept:", {k: repr(v) for k, v in dec.data.items()})
