"""show_B: what `raw_can_data` of a fast-packet message reassembled from frames contains.

Clean tree : only the raw input of the frame that completed the message (the last one seen).
Changed    : the raw input of ALL frames of the message, in frame order
             (binary packets concatenated, text lines joined by a newline).
The decoded message itself (definition, addressing, priority, field values and raw values) is the same
through all formats on both trees - that is the property C07.
"""
import logging
from nmea2000.decoder import NMEA2000Decoder

logging.disable(logging.CRITICAL)


def can_id(pgn, src, dest, prio):
    pf = (pgn >> 8) & 0xFF
    ps = dest if pf < 0xF0 else pgn & 0xFF
    return (prio << 26) | (((pgn >> 16) & 3) << 24) | (pf << 16) | (ps << 8) | src


def ebyte(cid, data):
    return bytes([0x80 | len(data)]) + cid.to_bytes(4, "big") + data + bytes(8 - len(data))


def usb(cid, data):
    p = bytes([0xAA, 0x55, 0x01, 0x02, 0x01]) + cid.to_bytes(4, "little") + bytes([len(data)]) + data + bytes(8 - len(data)) + b"\x00"
    return p + bytes([sum(p[2:19]) & 0xFF])


def yd(cid, data):
    return "12:34:56.789 R %08X %s" % (cid, " ".join("%02X" % b for b in data))


def actisense(pgn, src, dest, prio, data):
    return "A000001.000 %05X %05X %s" % ((src << 12) | (dest << 4) | prio, pgn, data.hex().upper())


def plain(pgn, src, dest, prio, data):
    return "2024-01-01T00:00:00.000Z,%d,%d,%d,%d,%d,%s" % (prio, pgn, src, dest, len(data), ",".join("%02x" % b for b in data))


def frames_of(payload, seq):
    out = [bytes([seq << 5, len(payload)]) + payload[:6]]
    rest, i = payload[6:], 1
    while rest:
        out.append(bytes([(seq << 5) | i]) + rest[:7] + b"\xff" * (7 - len(rest[:7])))
        rest, i = rest[7:], i + 1
    return out


def summary(msg):
    return (msg.PGN, msg.id, msg.source, msg.destination, msg.priority,
            tuple((f.id, f.value, f.raw_value) for f in msg.fields))


# PGN 130842 "Furuno: Six Degrees Of Freedom Movement" (fast packet), payload taken from tests/test_decoder.py
PGN, SRC, DEST, PRIO = 130842, 9, 255, 7
payload = bytes.fromhex("3F9F24000000FFFFFFFFEFFFFFFF009AFFFFFFADFFFFFF050000000000")
cid = can_id(PGN, SRC, DEST, PRIO)
frames = frames_of(payload, seq=2)
print("payload of %d bytes -> %d frames" % (len(payload), len(frames)))


def by_frames(feed):
    d = NMEA2000Decoder()
    out = [feed(d, f) for f in frames]
    assert all(m is None for m in out[:-1])
    return out[-1]


msgs = {
    "ebyte": by_frames(lambda d, f: d.decode_tcp(ebyte(cid, f))),
    "usb": by_frames(lambda d, f: d.decode_usb(usb(cid, f))),
    "yacht devices": by_frames(lambda d, f: d.decode_yacht_devices_string(yd(cid, f))),
    "plain (frames)": by_frames(lambda d, f: d.decode_basic_string(plain(PGN, SRC, DEST, PRIO, f))),
    "actisense (assembled)": NMEA2000Decoder().decode_actisense_string(actisense(PGN, SRC, DEST, PRIO, payload)),
    "plain (assembled)": NMEA2000Decoder().decode_basic_string(plain(PGN, SRC, DEST, PRIO, payload), True),
}
print("decoded message identical through all formats, framed or assembled (property C07):",
      len({summary(m) for m in msgs.values()}) == 1)
print()
for name, m in msgs.items():
    raw = m.raw_can_data
    if isinstance(raw, (bytes, bytearray)):
        print("%-22s raw_can_data: %d bytes = %s" % (name, len(raw), raw.hex()))
    else:
        print("%-22s raw_can_data: %d line(s)" % (name, len(raw.split("\n"))))
        for line in raw.split("\n"):
            print("%-22s    %s" % ("", line))

n = len(msgs["ebyte"].raw_can_data) // 13
print()
print("BEHAVIOUR: raw_can_data of the reassembled EByte message holds %d packet(s) ->" % n,
      "all frames (changed tree)" if n == len(frames) else "only the completing frame (clean tree)")
