"""show_A: what send() does while the client is DISCONNECTED and already reconnecting.

Prints, for a send() issued during a retry wait:
  - the value send() returns,
  - how many times the writer of the lost connection was written to,
  - the WARNING/ERROR log records the call produced,
  - the new `messages_dropped` counter (if present),
and then shows that the reconnection and a later send() work as before.
Exits 0 on both the clean and the changed tree.
"""
import asyncio
import logging
import sys

from nmea2000.ioclient import EByteNmea2000Gateway, State
from nmea2000.message import NMEA2000Message

ISO_REQUEST = '{"PGN":59904,"id":"isoRequest","description":"ISO Request","fields":[{"id":"pgn","name":"PGN","description":null,"unit_of_measurement":null,"value":60928,"raw_value":60928,"physical_quantities":null,"type":[13],"part_of_primary_key":false}],"source":0,"destination":255,"priority":6,"timestamp":"2012-06-17T15:02:11","source_iso_name":null,"hash":null}'


class Collect(logging.Handler):
    def __init__(self):
        super().__init__(logging.WARNING)
        self.records = []

    def emit(self, record):
        self.records.append((record.levelname, record.getMessage().splitlines()[0][:90]))


async def main():
    collector = Collect()
    log = logging.getLogger("nmea2000.ioclient")
    log.addHandler(collector)
    log.propagate = False

    server_side = []          # (reader, writer) of accepted connections
    received = bytearray()

    async def on_client(reader, writer):
        server_side.append((reader, writer))
        try:
            while True:
                data = await reader.read(100)
                if not data:
                    break
                received.extend(data)
        except Exception:
            pass

    server = await asyncio.start_server(on_client, "127.0.0.1", 0)
    port = server.sockets[0].getsockname()[1]

    states = []

    async def on_status(state):
        states.append(state.name)

    client = EByteNmea2000Gateway("127.0.0.1", port)
    client.set_status_callback(on_status)
    await client.connect()
    msg = NMEA2000Message.from_json(ISO_REQUEST)

    r = await client.send(msg)
    await asyncio.sleep(0.1)
    print(f"connected:      send() returned {r!r}; gateway got {len(received)} bytes")

    # the gateway goes away: hang up and stop listening -> EOF, then 'connection refused'
    server.close()
    for _, w in server_side:
        w.close()
    await server.wait_closed()
    for _ in range(100):
        if client.state == State.DISCONNECTED:
            break
        await asyncio.sleep(0.02)
    await asyncio.sleep(0.2)      # now inside the first retry wait
    print(f"gateway gone:   state={client.state.name}, statuses so far={states}")

    # count the writes on the writer of the lost connection
    old_writer = client.writer
    writes = []
    orig_write = old_writer.write
    old_writer.write = lambda data: (writes.append(len(data)), orig_write(data))[1]
    collector.records.clear()

    r = await client.send(msg)
    await asyncio.sleep(0.05)
    print(f"during outage:  send() returned {r!r}")
    print(f"                writes on the lost connection's writer: {len(writes)}")
    print(f"                log records: {collector.records}")
    print(f"                messages_dropped = {getattr(client, 'messages_dropped', '<no such attribute>')}")
    print(f"                state={client.state.name}")

    # the gateway comes back on the same port
    received.clear()
    server = await asyncio.start_server(on_client, "127.0.0.1", port)
    for _ in range(1000):
        if client.state == State.CONNECTED:
            break
        await asyncio.sleep(0.02)
    r = await client.send(msg)
    await asyncio.sleep(0.1)
    print(f"gateway back:   state={client.state.name}, statuses={states}")
    print(f"                send() returned {r!r}; gateway got {len(received)} bytes")

    await client.close()
    server.close()
    for _, w in server_side:
        w.close()
    await server.wait_closed()


if __name__ == "__main__":
    try:
        asyncio.run(main())
    except Exception as e:  # the show must not fail
        print("show_A: unexpected", type(e).__name__, e)
    sys.exit(0)
