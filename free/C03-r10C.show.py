"""show_C: a first frame that repeats the sequence counter of an INCOMPLETE reassembly on the same stream.

clean tree  : always taken for a duplicate and ignored - also when the incomplete message is ancient (its
              tail was lost, the sender's 3-bit counter came around / the sender rebooted). The head of the
              old message is then completed with the tail of the new one.
changed tree: a duplicate only while the stream is fresh; after FAST_PACKET_STALE_AFTER (750 ms, by the frame
              timestamps) without a frame the stale reassembly is dropped and the first frame starts a new message.
Frames of one message fed in order are decoded on both trees however slowly they arrive.
"""
import sys
from datetime import datetime, timedelta
from nmea2000.decoder import NMEA2000Decoder

FRAMES = """00,2f,e7,95,3d,00,73,d6
01,29,00,da,04,73,db,c9
02,e5,05,80,7d,02,28,5f
03,d6,10,f6,9b,50,6c,05
04,00,00,00,00,13,fc,08
05,6f,00,be,00,dd,f2,ff
06,ff,00,ff,ff,ff,ff,ff""".splitlines()
T0 = datetime(2022, 9, 28, 11, 36, 59, 668000)


def line(i, at, sid="e7"):
    data = FRAMES[i] if i != 0 else FRAMES[0].replace(",e7,", "," + sid + ",")
    return "%s,3,129029,0,255,8,%s" % (at.strftime("%Y-%m-%d-%H:%M:%S.%f")[:-3], data)


def sid(msg):
    return msg.fields[0].value


# 1. in order, 10 s between the frames: decoded on both trees
dec = NMEA2000Decoder()
out = [dec.decode_basic_string(line(i, T0 + timedelta(seconds=10 * i))) for i in range(7)]
assert all(o is None for o in out[:-1]) and out[-1] is not None and sid(out[-1]) == 231
print("slow in-order message (10 s per frame)   : decoded, SID", sid(out[-1]))

# 2. duplicate first frame while the stream is fresh (same timestamps): ignored on both trees
dec = NMEA2000Decoder()
seq = [0, 1, 2, 0, 3, 4, 5, 6]
out = [dec.decode_basic_string(line(i, T0)) for i in seq]
assert all(o is None for o in out[:-1]) and out[-1] is not None and sid(out[-1]) == 231
print("duplicate first frame on a fresh stream  : ignored, message decoded, SID", sid(out[-1]))

# 3. message A (SID 231) loses its tail; 30 s later message B (SID 232) arrives with the same sequence counter
dec = NMEA2000Decoder()
for i in (0, 1):
    assert dec.decode_basic_string(line(i, T0)) is None
later = T0 + timedelta(seconds=30)
out = [dec.decode_basic_string(line(i, later, sid="e8")) for i in range(7)]
assert all(o is None for o in out[:-1])
msg = out[-1]
if msg is None:
    print("stale reassembly, same sequence counter  : message B lost")
elif sid(msg) == 232:
    print("stale reassembly, same sequence counter  : stale head dropped, message B decoded, SID 232 (changed behaviour)")
elif sid(msg) == 231:
    print("stale reassembly, same sequence counter  : head of A + tail of B delivered as one message, SID 231 (clean behaviour)")
else:
    print("stale reassembly, same sequence counter  : SID", sid(msg))
sys.exit(0)
