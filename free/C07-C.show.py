"""show_C: a fast-packet message that lost frames, followed by the next message
from a device that re-uses the same sequence counter.

Part 1 (inside the property): a complete GNSS Position message (PGN 129029, 47 bytes,
7 frames) delivered frame by frame through the four frame-level carriers is compared with
the same payload delivered pre-assembled (Actisense, canboat).
Part 2 (outside the property): message M1 loses its frames 3..6, then message M2 - other
content, same sequence counter - arrives completely.  What comes out is printed.
Exits 0 on both the clean and the changed tree.
"""
import logging

from nmea2000.decoder import NMEA2000Decoder
from nmea2000.utils import calculate_canbus_checksum

logging.basicConfig(level=logging.ERROR)

PRIO, PGN, SRC, DST = 3, 129029, 0x23, 255
CAN_ID = (PRIO << 26) | (PGN << 8) | SRC
M1 = bytes.fromhex("e7953d0073d6" "2900da0473dbc9" "e505807d02285f" "d610f69b506c05"
                   "0000000013fc08" "6f00be00ddf2ff" "ff00ffffffff")
assert len(M1) == 47
# M2: other SID, other latitude (bytes 7..14), other altitude (bytes 23..30)
M2 = bytearray(M1)
M2[0] = 0x11
M2[12] ^= 0x04
M2[25] ^= 0x20
M2 = bytes(M2)


def frames(payload, seq):
    out = [bytes([seq << 5, len(payload)]) + payload[:6]]
    rest = payload[6:]
    for k in range(1, 1 + (len(rest) + 6) // 7):
        chunk = rest[(k - 1) * 7:k * 7]
        out.append(bytes([(seq << 5) | k]) + chunk + b"\xff" * (7 - len(chunk)))
    return out


def usb_packet(can_id, data):
    body = bytes([0xAA, 0x55, 0x01, 0x02, 0x01]) + can_id.to_bytes(4, "little") + bytes([len(data)]) + data + bytes(8 - len(data)) + b"\x00"
    return body + bytes([calculate_canbus_checksum(body + b"\x00")])


def hx(data, sep):
    return sep.join(f"{b:02x}" for b in data)


FRAME_LEVEL = {
    "ebyte": lambda d, f: d.decode_tcp(bytes([0x80 | len(f)]) + CAN_ID.to_bytes(4, "big") + f),
    "usb": lambda d, f: d.decode_usb(usb_packet(CAN_ID, f)),
    "yacht_devices": lambda d, f: d.decode_yacht_devices_string("11:36:59.668 R %08X %s" % (CAN_ID, hx(f, " ").upper())),
    "canboat(frames)": lambda d, f: d.decode_basic_string("2022-09-28-11:36:59.668,%d,%d,%d,%d,%d,%s" % (PRIO, PGN, SRC, DST, len(f), hx(f, ","))),
}
WHOLE = {
    "actisense": lambda d, p: d.decode_actisense_string("A000057.055 %02X%02X%X %05X %s" % (SRC, DST, PRIO, PGN, p.hex().upper())),
    "canboat(whole)": lambda d, p: d.decode_basic_string("2022-09-28T11:36:59.668Z,%d,%d,%d,%d,%d,%s" % (PRIO, PGN, SRC, DST, len(p), hx(p, ",")), True),
}


def content(msg):
    if msg is None:
        return None
    return (msg.PGN, msg.id, msg.description, msg.source, msg.destination, msg.priority,
            [(f.id, f.value, f.raw_value) for f in msg.fields])


def brief(msg):
    if msg is None:
        return "nothing decoded"
    v = {f.id: f.value for f in msg.fields}
    return f"sid={v['sid']} latitude={v['latitude']:.9f} altitude={v['altitude']:.3f}"


def feed(fn, frame_list):
    d = NMEA2000Decoder()
    out = [m for m in (fn(d, f) for f in frame_list) if m is not None]
    return out, d


print("--- part 1: complete message, frame by frame vs pre-assembled ---")
ref = {name: fn(NMEA2000Decoder(), M2) for name, fn in WHOLE.items()}
for name, m in ref.items():
    print(f"{name:16s} {brief(m)}")
ok = True
for name, fn in FRAME_LEVEL.items():
    out, _ = feed(fn, frames(M2, 0))
    print(f"{name:16s} {len(out)} message(s): {brief(out[0]) if out else '-'}")
    ok = ok and len(out) == 1 and all(content(out[0]) == content(r) for r in ref.values())
print("frame-by-frame equals pre-assembled in every format:", ok)
assert ok

print("--- part 2: M1 loses frames 3..6, then M2 (same sequence counter 0) arrives completely ---")
print(f"{'M1 would be':16s} {brief(WHOLE['actisense'](NMEA2000Decoder(), M1))}")
print(f"{'M2 is':16s} {brief(ref['actisense'])}")
stream = frames(M1, 0)[:3] + frames(M2, 0)
for name, fn in FRAME_LEVEL.items():
    out, d = feed(fn, stream)
    verdict = "nothing" if not out else ("M2" if content(out[0]) == content(ref["actisense"]) else "a MIX of M1 and M2")
    print(f"{name:16s} {len(out)} message(s): {brief(out[0]) if out else '-':60s} => {verdict}; buffers left: {len(d.data)}")
