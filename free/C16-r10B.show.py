"""show_B: the encoder now fills the last frame of a fast packet up to 8 data bytes with 0xFF.

clean tree  : the last frame is as short as the rest of the payload (EBYTE: shorter length nibble
              + 0x00 fill outside the frame, USB: shorter length byte, Yacht Devices: fewer bytes).
changed tree: every fast-packet frame has 8 data bytes, the tail of the last one is 0xFF.

Decoding the frames (on a new decoder, or on one that already saw other traffic) gives exactly the
same message in both trees, because the decoder cuts at the length announced in the first frame.
"""
import logging
from nmea2000.decoder import NMEA2000Decoder
from nmea2000.encoder import NMEA2000Encoder

logging.disable(logging.CRITICAL)

SAMPLES = [
    # PGN 128275 Distance Log, 14 bytes: 3 frames, the last one carries 1 payload byte
    "2022-09-28-11:36:59.668,6,128275,35,255,14,95,3d,00,73,d6,29,10,27,00,00,e8,03,00,00",
    # PGN 129029 GNSS Position Data, 47 bytes: 7 frames, the last one carries 6 payload bytes
    "2022-09-28-11:36:59.668,3,129029,0,255,47,e7,95,3d,00,73,d6,29,00,da,04,73,db,c9,e5,05,80,7d,02,28,5f,d6,10,f6,"
    "9b,50,6c,05,00,00,00,00,13,fc,08,6f,00,be,00,dd,f2,ff,ff,00,ff,ff,ff,ff,ff",
]

padded = []
for line in SAMPLES:
    original = NMEA2000Decoder().decode_basic_string(line, True)
    enc = NMEA2000Encoder()
    tcp = enc.encode_ebyte(original)
    usb = enc.encode_usb(original)
    yd = enc.encode_yacht_devices(original)
    print("PGN %d, payload of %s bytes, %d frames" % (original.PGN, line.split(",")[5], len(tcp)))
    print("  last EBYTE frame :", tcp[-1].hex(), "(data length nibble = %d)" % (tcp[-1][0] & 0x0F))
    print("  last USB frame   :", usb[-1].hex(), "(data length byte = %d)" % usb[-1][9])
    print("  last YD frame    :", yd[-1].decode().strip())
    padded.append((tcp[-1][0] & 0x0F) == 8 and usb[-1][9] == 8)

    # round trip: a new decoder and a decoder with some history give the same message as the original
    fresh = NMEA2000Decoder()
    used = NMEA2000Decoder()
    used.decode_basic_string("2022-09-28-11:36:59.668,3,129029,0,255,8,00,2f,e7,95,3d,00,73,d6")
    used.decode_tcp(tcp[0][:5] + bytes([0xE0, 40]) + bytes(6))  # an unfinished message on the same stream
    r_fresh = [fresh.decode_tcp(p) for p in tcp][-1]
    r_used = [used.decode_tcp(p) for p in tcp][-1]
    r_usb = [fresh.decode_usb(p) for p in usb][-1]
    same = (r_fresh.to_string_test_style() == original.to_string_test_style()
            == r_used.to_string_test_style() == r_usb.to_string_test_style())
    print("  decoded again (tcp on new decoder, tcp on used decoder, usb) identical to the original:", same)

if all(padded):
    print("BEHAVIOUR: last fast-packet frame is filled to 8 data bytes with 0xFF (changed tree)")
elif not any(padded):
    print("BEHAVIOUR: last fast-packet frame is sent short (clean tree)")
else:
    print("BEHAVIOUR: mixed", padded)
