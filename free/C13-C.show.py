"""show_C: which status reports does the application get while the gateway is unreachable?

For each of the four client types:
  1. the client is started while the gateway is down: 4 connection attempts fail, the 5th succeeds;
  2. the gateway drops the connection (EOF); 3 attempts fail, the 4th succeeds;
  3. the gateway sends a frame, the client delivers it.
Printed: every call of the status callback, in order, and the (new) diagnostic attributes.
The waits between attempts are shortened so that the program finishes at once.
Exits 0 on the clean and on the changed tree.
"""
import asyncio
import logging
import socket
import sys

import serial_asyncio
from nmea2000.ioclient import (ActisenseNmea2000Gateway, EByteNmea2000Gateway, State,
                               WaveShareNmea2000Gateway, YachtDevicesNmea2000Gateway)

logging.disable(logging.CRITICAL)

FRAMES = {
    "EByte": bytes.fromhex("8815f11910000000e50b1dffff"),
    "Actisense": b"A000057.055 09FF7 0FF00 3F9FDCFFFFFFFFFF\n",
    "YachtDevices": b"00:01:54.430 R 15F11910 00 00 00 E5 0B 1D FF FF\r\n",
    "WaveShare": bytes.fromhex("aa550102011019f11508000000e50b1dffff0046"),
}
real_sleep = asyncio.sleep
real_open = asyncio.open_connection
real_serial = serial_asyncio.open_serial_connection


def free_port():
    s = socket.socket()
    s.bind(("127.0.0.1", 0))
    port = s.getsockname()[1]
    s.close()
    return port


async def run(kind):
    port = free_port()
    peers = []
    refuse = 4
    events = []                   # status reports and connection attempts, in order

    async def on_peer(reader, writer):
        peers.append(writer)

    async def fast_sleep(delay, result=None):
        return await real_sleep(0 if delay >= 0.05 else delay, result)

    async def counting_open(host, p, **kw):
        nonlocal refuse
        if refuse > 0:
            refuse -= 1
            events.append("(attempt refused)")
            raise ConnectionRefusedError(111, "Connect call failed")
        events.append("(attempt accepted)")
        return await real_open(host, p, **kw)

    async def fake_serial(*a, **kw):
        return await counting_open("127.0.0.1", port)

    got = asyncio.Event()
    diag = []

    async def on_status(state):
        events.append(state.name)
        diag.append((state.name, getattr(client, "failed_attempts", "-"),
                     type(getattr(client, "last_error", None)).__name__))

    async def on_message(msg):
        got.set()

    asyncio.sleep = fast_sleep
    asyncio.open_connection = counting_open
    serial_asyncio.open_serial_connection = fake_serial
    server = await asyncio.start_server(on_peer, "127.0.0.1", port)
    try:
        client = {"EByte": lambda: EByteNmea2000Gateway("127.0.0.1", port),
                  "Actisense": lambda: ActisenseNmea2000Gateway("127.0.0.1", port),
                  "YachtDevices": lambda: YachtDevicesNmea2000Gateway("127.0.0.1", port),
                  "WaveShare": lambda: WaveShareNmea2000Gateway("/dev/ttyFAKE")}[kind]()
        client.set_status_callback(on_status)
        client.set_receive_callback(on_message)
        await client.connect()                       # 4 refusals, then accepted
        while not peers:
            await real_sleep(0.01)
        assert client.state == State.CONNECTED
        events.append("(gateway closes the connection)")
        refuse = 3
        peers.pop().close()                          # EOF, then 3 refusals, then accepted
        for _ in range(1000):
            if client.state == State.CONNECTED and peers:
                break
            await real_sleep(0.01)
        assert client.state == State.CONNECTED
        peers[0].write(FRAMES[kind])
        await asyncio.wait_for(got.wait(), 5)
        events.append("(frame delivered)")
        await client.close()
    finally:
        asyncio.sleep = real_sleep
        asyncio.open_connection = real_open
        serial_asyncio.open_serial_connection = real_serial
        server.close()

    print(f"--- {kind}")
    for e in events:
        print(f"    {e}")
    print("    status callback saw (state, failed_attempts, last_error): " + " ".join(str(d) for d in diag))
    reports = [e for e in events if not e.startswith("(")]
    # what the property promises, on either tree
    collapsed = [r for i, r in enumerate(reports) if i == 0 or r != reports[i - 1]]
    assert collapsed in (["CONNECTED", "DISCONNECTED", "CONNECTED", "CLOSED"],
                         ["DISCONNECTED", "CONNECTED", "DISCONNECTED", "CONNECTED", "CLOSED"]), collapsed
    return reports


async def main():
    for kind in ("EByte", "Actisense", "YachtDevices", "WaveShare"):
        reports = await run(kind)
    print()
    print(f"number of DISCONNECTED reports in one run: {reports.count('DISCONNECTED')}, "
          f"of CONNECTED reports: {reports.count('CONNECTED')}")


asyncio.run(main())
sys.exit(0)
