"""show_C: sequence counter used by the FIRST fast-packet message of a freshly created encoder.
The property fixes how the counter relates to the previous message's (it differs) and quantifies
over all 8 counter states; it does not say in which state a new encoder starts.
Clean tree: every new encoder starts with sequence 0.
Changed tree: the start value is random per encoder (or chosen with initial_sequence_counter=)."""
import inspect
from nmea2000.encoder import NMEA2000Encoder

PGN = 129029
first = []
for _ in range(64):
    enc = NMEA2000Encoder()
    frames = enc._encode_fast_message(PGN, 3, 7, 255, bytes(range(20)))
    first.append(frames[0][0] >> 5)
print("sequence counter of the first message of 64 fresh encoders:")
print(" ", first)
print("distinct start values:", sorted(set(first)))

enc = NMEA2000Encoder()
seqs = [enc._encode_fast_message(PGN, 3, 7, 255, bytes(10))[0][0] >> 5 for _ in range(10)]
print("10 consecutive messages of one encoder:", seqs, "(still +1 modulo 8, never equal to the previous)")
assert all(a != b for a, b in zip(seqs, seqs[1:]))

if "initial_sequence_counter" in inspect.signature(NMEA2000Encoder.__init__).parameters:
    enc = NMEA2000Encoder(initial_sequence_counter=5)
    print("NMEA2000Encoder(initial_sequence_counter=5) first message uses sequence",
          enc._encode_fast_message(PGN, 3, 7, 255, bytes(10))[0][0] >> 5)
    print("BEHAVIOUR: random start value (changed tree)")
else:
    print("no initial_sequence_counter keyword")
    print("BEHAVIOUR: always starts at 0 (clean tree)")
