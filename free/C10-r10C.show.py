"""show_C: a device with another NAME claims a source address in the middle of a fast-packet sequence.

Source 5 (Navico) sends two of the three frames of a configuration-information fast packet, then a
Victron device claims address 5 and sends its own three frames with the same sequence counter.
Prints what the decoder returns for the new owner's sequence, and then checks property C10 on the
history (filtered decoders against the unfiltered one, and their source maps).
Exits 0 on the clean and on the changed tree.
"""
import logging
from nmea2000.decoder import NMEA2000Decoder

logging.disable(logging.CRITICAL)
TS = "2022-09-10T12:10:16.614Z"
NAVICO = "fb,9b,70,22,00,9b,50,c0"
VICTRON = "f5,01,c0,2c,ef,aa,46,c0"
CONFIG_INFO = "07,01,68,65,6C,6C,6F,0c,00,77,00,F3,00,72,00,6C,00,64,00".split(",")


def single(pgn, src, data, prio=2, dest=255):
    return ("basic", f"{TS},{prio},{pgn},{src},{dest},{len(data.split(','))},{data}")


def claim(src, name):
    return single(60928, src, name, prio=6)


def fast(pgn, src, payload, seq, prio=6, dest=255):
    frames = []
    rest = list(payload)
    frames.append([f"{(seq << 5):02x}", f"{len(payload):02x}"] + rest[:6])
    rest = rest[6:]
    n = 1
    while rest:
        chunk = rest[:7]
        rest = rest[7:]
        frames.append([f"{(seq << 5) | n:02x}"] + chunk + ["ff"] * (7 - len(chunk)))
        n += 1
    return [("basic", f"{TS},{prio},{pgn},{src},{dest},8,{','.join(f)}") for f in frames]


def tcp(pgn, src, data: bytes, prio=2, dlc=None, pad=True):
    """13 byte ECAN packet; dlc may lie about the data, pad=False gives a truncated packet"""
    frame_id = (prio << 26) | (pgn << 8) | src
    dlc = len(data) if dlc is None else dlc
    body = data + (bytes(8 - len(data)) if pad else b"")
    return ("tcp", bytes([0x80 | dlc]) + frame_id.to_bytes(4, "big") + body)


def heading(src):
    return single(127250, src, "00,10,27,ff,7f,ff,7f,fd")


def wind(src):
    return single(130306, src, "00,10,01,20,30,fa,ff,ff")


def feed(d, item):
    kind, payload = item
    if kind == "basic":
        return d.decode_basic_string(payload)
    return d.decode_tcp(payload)


def key(m):
    if m is None:
        return None
    return (m.PGN, m.id, m.source, m.destination, m.priority,
            tuple((f.id, f.raw_value, str(f.value)) for f in m.fields),
            None if m.source_iso_name is None else m.source_iso_name.name)


def run(history, **kw):
    d = NMEA2000Decoder(**kw)
    out = []
    for item in history:
        try:
            out.append(key(feed(d, item)))
        except Exception:
            out.append(None)
    return out, {s: n.name for s, n in d.source_to_iso_name.items()}


def permitted(k, exclude=(), include=()):
    pgn, id_ = k[0], k[1].lower()
    if pgn in {e for e in exclude if isinstance(e, int)} or id_ in {e.lower() for e in exclude if isinstance(e, str)}:
        return False
    if include and pgn not in {e for e in include if isinstance(e, int)} and id_ not in {e.lower() for e in include if isinstance(e, str)}:
        return False
    return True



OLD_TEXT = CONFIG_INFO                                                                  # "hello" / "world"
NEW_TEXT = "07,01,48,45,4C,4C,4F,0c,00,57,00,4F,00,52,00,4C,00,44,00".split(",")      # "HELLO" / "WORLD"

old_owner = fast(126998, 5, OLD_TEXT, seq=1)
new_owner = fast(126998, 5, NEW_TEXT, seq=1)
history = [claim(5, NAVICO), heading(5)] + old_owner[:2] + [claim(5, VICTRON), wind(5)] + new_owner
history += [heading(5)] + fast(126998, 5, NEW_TEXT, seq=2) + [claim(7, NAVICO), wind(7)]

d = NMEA2000Decoder()
print("unfiltered decoder:")
for item in history:
    m = feed(d, item)
    pgn = item[1].split(",")[2]
    if m is None:
        print(f"  pgn {pgn:>6} -> None   (incomplete sequences buffered: {sorted(d.data)})")
    else:
        texts = [str(f.value) for f in m.fields if isinstance(f.value, str)]
        print(f"  pgn {pgn:>6} -> {m.id} from {m.source_iso_name.manufacturer_code if m.source_iso_name else '?'} {texts if m.PGN == 126998 else ''}")
print("  (clean tree: the first configurationInformation of the new owner is glued together from frames 0,1 of the")
print("   previous owner and frame 2 of the new one; changed tree: the claim discards the stale frames)")

configs = [
    dict(exclude_pgns=[130306]), dict(exclude_pgns=["WINDDATA", 126998]), dict(exclude_pgns=[60928, "configurationInformation"]),
    dict(exclude_pgns=["ISOADDRESSCLAIM"]), dict(include_pgns=[126998]), dict(include_pgns=["vesselheading", 60928]),
    dict(include_pgns=["isoaddressCLAIM", 130306]), dict(include_pgns=["configurationinformation"]),
    dict(include_pgns=[]), dict(exclude_pgns=[]),
]
u_out, u_map = run(history)
ok = True
for cfg in configs:
    f_out, f_map = run(history, **cfg)
    expected = [k if (k is not None and permitted(k, cfg.get("exclude_pgns", ()), cfg.get("include_pgns", ()))) else None for k in u_out]
    good = f_out == expected and f_map == u_map
    ok = ok and good
    print(f"  C10 with {cfg}: {'holds' if good else 'VIOLATED'}")
print("C10 holds on this tree:", ok)
