"""show_C: build_network_map on, a fast-packet message (PGN 126998, 3 frames) is in flight when its source claims.

Clean tree : the frames that arrive before the claim are thrown away, so the frames after the claim find no first
             frame and the whole message is lost.
Changed tree: the frames of the not-yet-claimed source are collected (never returned); the message completes with
             the frame that arrives AFTER the claim and is returned carrying the identity of that claim - unless
             the claimed manufacturer is excluded, or it completes before any claim (then it is dropped).
Exits 0 on both trees.
"""
import logging
from nmea2000.decoder import NMEA2000Decoder

logging.disable(logging.CRITICAL)


def claim(src: int, manufacturer: int, unique: int = 77) -> str:
    name = unique | (manufacturer << 21) | (130 << 40) | (25 << 49) | (4 << 60) | (1 << 63)
    return f"2022-09-10T12:10:16.614Z,6,60928,{src},255,8," + ",".join(f"{b:02x}" for b in name.to_bytes(8, "little"))


def frames(src: int, seq: int = 1) -> list[str]:
    # PGN 126998 configuration information, 19 byte payload -> 3 frames
    head = f"2022-09-10T12:10:18.000Z,6,126998,{src},255,8,"
    return [head + f"{seq << 5:02x},13,07,01,68,65,6C,6C",
            head + f"{(seq << 5) | 1:02x},6F,0c,00,77,00,F3,00",
            head + f"{(seq << 5) | 2:02x},72,00,6C,00,64,00,ff"]


def show(m) -> str:
    if m is None:
        return "None"
    ident = m.source_iso_name
    return f"PGN {m.PGN} src {m.source} identity=" + ("None" if ident is None else f"{ident.manufacturer_code}/{ident.name:#x}")


def scenario(title: str, script, **kwargs) -> None:
    print(f"--- {title}")
    dec = NMEA2000Decoder(build_network_map=True, **kwargs)
    claimed = {}
    for what, src, arg in script:
        if what == "claim":
            m = dec.decode_basic_string(claim(src, arg))
            claimed[src] = m.source_iso_name.name
        else:
            m = dec.decode_basic_string(frames(src)[arg])
        print(f"    {what:5} src {src} {arg!s:5} -> {show(m)}")
        if m is not None and m.PGN != 60928:
            # property: inside the discovery window a returned data message comes from a source that HAS claimed,
            # it carries the identity of that source's latest claim, and its manufacturer is not excluded
            assert src in claimed and m.source_iso_name.name == claimed[src]
            assert m.source_iso_name.manufacturer_code.lower() not in {x.lower() for x in kwargs.get("exclude_manufacturer_code", [])}
    dec.close()


GARMIN, SIMRAD = 229, 1857
scenario("claim arrives between frame 1 and frame 2",
         [("frame", 5, 0), ("frame", 5, 1), ("claim", 5, GARMIN), ("frame", 5, 2)])
scenario("the completed message carries the claim of its OWN address, not the neighbour's",
         [("frame", 5, 0), ("frame", 5, 1), ("claim", 6, GARMIN), ("claim", 5, SIMRAD), ("frame", 5, 2)])
scenario("the source turns out to be an excluded manufacturer: still nothing",
         [("frame", 5, 0), ("frame", 5, 1), ("claim", 5, SIMRAD), ("frame", 5, 2)], exclude_manufacturer_code=["simrad"])
scenario("message completes before the claim: dropped, not delivered late",
         [("frame", 5, 0), ("frame", 5, 1), ("frame", 5, 2), ("claim", 5, GARMIN), ("frame", 5, 2)])
scenario("claim first (same on both trees)",
         [("claim", 5, GARMIN), ("frame", 5, 0), ("frame", 5, 1), ("frame", 5, 2)])
