"""show_C: frames that declare more than 8 data bytes.

An EByte stream and a Waveshare stream each carry three frames of PGN 127257; the middle one
declares an impossible data length (15 resp. 9 bytes). The streams are cut into 7 byte reads. We
print what a stand-alone decoder returns for each packet and what the client hands to the receive
callback. On both trees the two lists are identical; what differs is whether the middle frame is
decoded at all.
"""
import asyncio
import logging

from nmea2000.decoder import NMEA2000Decoder
from nmea2000.ioclient import EByteNmea2000Gateway, WaveShareNmea2000Gateway
from nmea2000.utils import calculate_canbus_checksum

logging.disable(logging.CRITICAL)

FRAME_ID = bytes.fromhex("15F11910")  # PGN 127257 (Attitude), source 16, priority 5


def data(i: int) -> bytes:
    return bytes([i]) + bytes.fromhex("0000E50B1DFFFF")


def ebyte(i: int, dlc: int) -> bytes:
    return bytes([0x80 | dlc]) + FRAME_ID + data(i)


def waveshare(i: int, dlc: int) -> bytes:
    p = bytes([0xAA, 0x55, 0x01, 0x02, 0x01]) + FRAME_ID[::-1] + bytes([dlc]) + data(i) + b"\x00"
    return p + bytes([calculate_canbus_checksum(p)])


def describe(msgs) -> list:
    return [f"PGN {m.PGN} sid={m.fields[0].value}" for m in msgs if m is not None]


async def run(client, decode, packets) -> bool:
    reader = asyncio.StreamReader()
    client.reader = reader
    client._buffer = bytearray()  # used by the Waveshare client only
    got = []

    async def callback(msg):
        got.append(msg)

    client.set_receive_callback(callback)
    client._receive_task = asyncio.create_task(client._receive_loop())
    stream = b"".join(packets)
    for k in range(0, len(stream), 7):
        reader.feed_data(stream[k:k + 7])
        await asyncio.sleep(0.005)
    await asyncio.sleep(0.1)

    expected = describe([decode(p) for p in packets])
    delivered = describe(got)
    print(f"  decoder, packet by packet : {expected}")
    print(f"  client receive callback   : {delivered}")
    print(f"  identical                 : {delivered == expected}")
    await client.close()
    return delivered == expected


async def main() -> int:
    ok = True
    print("EByte   (data length nibble 8, 15, 8)")
    ok &= await run(EByteNmea2000Gateway("127.0.0.1", 1), NMEA2000Decoder().decode_tcp,
                    [ebyte(1, 8), ebyte(2, 15), ebyte(3, 8)])
    print("Waveshare (data length byte 8, 9, 8)")
    ok &= await run(WaveShareNmea2000Gateway("/dev/null"), NMEA2000Decoder().decode_usb,
                    [waveshare(1, 8), waveshare(2, 9), waveshare(3, 8)])
    return 0 if ok else 1


if __name__ == "__main__":
    raise SystemExit(asyncio.run(main()))
