"""show_C: a receive callback that lets an asyncio.CancelledError of its own escape.

(The callback awaits a future of the application that somebody cancelled. CancelledError derives from
BaseException, so it is not one of the "exceptions" an `except Exception` handles.)

Clean tree : the error kills the client's delivery task; no later message ever reaches the callback.
Changed tree: it is logged and counted (client.callback_cancellations) like any other failure of the
             callback and delivery goes on with the next message. A real cancellation of the delivery
             task (close()) still goes through.
Ordinary exceptions (second scenario) are survived on both trees.
"""
import asyncio
import logging

from nmea2000.ioclient import ActisenseNmea2000Gateway

logging.disable(logging.CRITICAL)


class DummyWriter:
    def write(self, data): pass
    async def drain(self): pass
    def close(self): pass


def line(n: int) -> bytes:
    # PGN 65280 (manufacturer proprietary, Furuno heave), one line per message
    return f"A0000{n:02d}.055 09FF7 0FF00 3F9F{n:02X}FFFFFFFFFF\r\n".encode()


async def run(error_factory):
    client = ActisenseNmea2000Gateway("127.0.0.1", 1)
    reader = asyncio.StreamReader()

    async def fake_connect():
        client.reader, client.writer = reader, DummyWriter()
    client._connect_impl = fake_connect
    seen = []

    async def cb(msg):
        seen.append(len(seen) + 1)
        if len(seen) == 2:
            await error_factory()

    client.set_receive_callback(cb)
    await client.connect()
    for n in range(1, 6):
        reader.feed_data(line(n))
    await asyncio.sleep(0.1)
    alive = not client._process_queue_task.done()
    counter = getattr(client, "callback_cancellations", "n/a")
    await client.close()
    await asyncio.sleep(0.02)
    return seen, alive, counter, client._process_queue_task.done()


async def leak_cancelled_error():
    fut = asyncio.get_running_loop().create_future()
    fut.cancel()          # e.g. the application dropped the request this callback was waiting for
    await fut             # raises CancelledError inside the callback


async def ordinary_error():
    raise RuntimeError("boom")


async def main():
    seen, alive, counter, done_after_close = await run(leak_cancelled_error)
    print("5 messages sent, the callback leaks a CancelledError while handling the 2nd:")
    print("   callback invocations:", seen, " delivery task alive:", alive, " callback_cancellations:", counter)
    print("   ->", "delivery went on after the leaked CancelledError" if seen == [1, 2, 3, 4, 5]
          else "delivery task died, messages 3..5 never delivered" if seen == [1, 2] else "unexpected")
    print("   delivery task finished after close():", done_after_close)
    assert done_after_close
    seen, alive, counter, done_after_close = await run(ordinary_error)
    print("5 messages sent, the callback raises RuntimeError while handling the 2nd:")
    print("   callback invocations:", seen, " delivery task alive:", alive)
    assert seen == [1, 2, 3, 4, 5] and done_after_close


asyncio.run(main())
