"""show_A: what does decode_usb() do with a damaged packet (bad checksum / wrong size)?

clean tree  : logs a warning and returns None (the packet is silently ignored)
changed tree: raises ValueError (the packet is rejected with an error)

In both trees the damaged packets leave no trace: the probe decodes the same afterwards.
Exits 0 on both trees.
"""
import logging

from nmea2000.decoder import NMEA2000Decoder
from nmea2000.encoder import NMEA2000Encoder

logging.disable(logging.CRITICAL)

GOOD = bytes.fromhex("aa550102010900ff1c083f9fdcffffffffff00e5")  # from tests/test_decoder.py::test_usb_bytes


def outcome(decoder, packet):
    try:
        msg = decoder.decode_usb(packet)
    except Exception as e:  # noqa: BLE001
        return f"raised {type(e).__name__}: {str(e)[:60]}"
    if msg is None:
        return "returned None"
    return "returned " + msg.to_string_test_style()


def view(msg):
    return None if msg is None else (msg.PGN, msg.id, msg.source, msg.destination, msg.priority,
                                     [(f.id, f.value, f.raw_value) for f in msg.fields])


bad_checksum = GOOD[:19] + bytes([GOOD[19] ^ 0x5A])
bad_payload = GOOD[:12] + bytes([GOOD[12] ^ 0x01]) + GOOD[13:]   # payload bit flipped, checksum not updated
too_short = GOOD[:15]
too_long = GOOD + b"\x00\x00"

d = NMEA2000Decoder()
print("good packet        ->", outcome(d, GOOD))
print("bad checksum       ->", outcome(d, bad_checksum))
print("payload bit flipped->", outcome(d, bad_payload))
print("15 byte packet     ->", outcome(d, too_short))
print("22 byte packet     ->", outcome(d, too_long))

# the property: the damaged packets changed nothing. Use a fast-packet probe with a pending partial
# message in the decoder so that there is some state that could have been damaged.
enc = NMEA2000Encoder()
fresh = NMEA2000Decoder()
msg = fresh.decode_basic_string(
    "2022-09-28-11:36:59.668,3,129029,0,255,43,e7,95,3d,00,73,d6,29,00,da,04,73,db,c9,e5,05,80,7d,02,28,5f,d6,10,f6,9b,50,6c,05,"
    "00,00,00,00,13,fc,08,6f,00,be,00,dd,f2,ff,ff,00", already_combined=True)
assert msg is not None
frames = enc.encode_usb(msg)

def run(with_damage):
    dec = NMEA2000Decoder()
    out = []
    # half of the message ...
    for f in frames[:3]:
        out.append(view(dec.decode_usb(f)))
    if with_damage:
        for bad in (bad_checksum, bad_payload, too_short, too_long,
                    frames[3][:19] + bytes([frames[3][19] ^ 0xFF])):
            try:
                r = dec.decode_usb(bad)
                assert r is None
            except ValueError:
                pass
    # ... the rest of it, then a single-frame probe
    for f in frames[3:]:
        out.append(view(dec.decode_usb(f)))
    out.append(view(dec.decode_usb(GOOD)))
    return out

a, b = run(False), run(True)
assert a == b, "damaged packets changed later results"
assert a[-1] is not None and a[-2] is not None
print("results after damaged packets identical to results without them:", a == b)
