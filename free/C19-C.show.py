"""show_C: how do write() and drain() alternate, and who waits for whom?

Two tasks send a 3-packet message each while the transport applies flow control (every drain()
suspends the caller).  The program prints the sequence of write()/drain() calls seen by the link,
the number of drain() calls, and whether the second message was queued while the first sender was
still suspended.  It also checks that each message is written as exactly the encoder's packets,
in order and contiguously.

clean tree   : W1 d W1 d W1 d W2 d W2 d W2 d   (one drain per packet, second sender waits)
changed tree : W1 W1 W1 d W2 W2 W2 d           (one drain per message, written back to back)
Exits 0 on both.
"""
import asyncio
import logging

from nmea2000.encoder import NMEA2000Encoder
from nmea2000.ioclient import EByteNmea2000Gateway, State
from nmea2000.message import NMEA2000Message, NMEA2000Field

logging.disable(logging.CRITICAL)


def distance_log(priority: int, log: int) -> NMEA2000Message:
    """PGN 128275 is a fast-packet PGN: 14 bytes of payload -> 3 packets."""
    return NMEA2000Message(PGN=128275, priority=priority, source=1, destination=255, fields=[
        NMEA2000Field(id="date", raw_value=19000),
        NMEA2000Field(id="time", raw_value=100),
        NMEA2000Field(id="log", value=log),
        NMEA2000Field(id="tripLog", value=7),
    ])


class FakeWriter:
    def __init__(self):
        self.written = []
        self.events = []
        self.suspended = 0              # senders currently waiting in drain()
        self.writes_while_other_suspended = 0

    def write(self, data):
        self.written.append(bytes(data))
        self.events.append(bytes(data))
        if self.suspended:
            self.writes_while_other_suspended += 1

    async def drain(self):
        self.events.append("d")
        self.suspended += 1
        for _ in range(3):              # flow control: the caller is suspended for a while
            await asyncio.sleep(0)
        self.suspended -= 1

    def close(self):
        pass


async def main():
    client = EByteNmea2000Gateway("127.0.0.1", 1)
    writer = FakeWriter()
    client.writer = writer
    client._state = State.CONNECTED

    messages = [distance_log(3, 111), distance_log(3, 222)]
    reference = NMEA2000Encoder()
    expected = [reference.encode_ebyte(m) for m in messages]
    name = {p: f"W{i + 1}" for i, packets in enumerate(expected) for p in packets}

    await asyncio.gather(*(asyncio.create_task(client.send(m)) for m in messages))

    wire = writer.written
    ok = wire == expected[0] + expected[1] or wire == expected[1] + expected[0]
    print("write()/drain() calls seen by the link:", " ".join(e if e == "d" else name.get(e, "??") for e in writer.events))
    print("drain() calls                         :", writer.events.count("d"))
    print("packets written while another sender was suspended in drain():", writer.writes_while_other_suspended)
    print("every message contiguous and equal to the encoder's packets   :", ok)
    print("state:", client.state.name)
    await client.close()
    assert ok


asyncio.run(main())
