"""show_A: manufacturer exclude/include lists given by NMEA 2000 manufacturer NUMBER (229, "1857", 1999).

Clean tree : a numeric string is just a name that matches nobody, an int entry crashes the constructor.
Changed tree: the number is matched against the manufacturer number of the claimed NAME (bits 21-31),
              which also lets one filter manufacturers the lookup table has no name for.
Lists made of names only behave the same on both trees (last block).
Exits 0 on both trees.
"""
import logging
from nmea2000.decoder import NMEA2000Decoder

logging.disable(logging.CRITICAL)


def claim(src: int, manufacturer: int, unique: int = 1234) -> str:
    # 64 bit NAME: unique(21) | manufacturer(11) | instance(8) | function(8) | spare(1) | class(7) | sys inst(4) | industry(3) | aac(1)
    name = unique | (manufacturer << 21) | (130 << 40) | (25 << 49) | (4 << 60) | (1 << 63)
    data = ",".join(f"{b:02x}" for b in name.to_bytes(8, "little"))
    return f"2022-09-10T12:10:16.614Z,6,60928,{src},255,8,{data}"


def heading(src: int) -> str:
    return f"2022-09-10T12:10:17.000Z,2,127250,{src},255,8,00,10,27,ff,7f,ff,7f,fd"


SOURCES = {10: 1857, 11: 229, 12: 1999}   # Simrad, Garmin, a number the table does not know


def run(title: str, **kwargs) -> None:
    print(f"--- {title}: {kwargs}")
    try:
        dec = NMEA2000Decoder(**kwargs)
    except Exception as ex:  # clean tree: int entries are not accepted
        print(f"    constructor raised {type(ex).__name__}: {ex}")
        return
    for src, manufacturer in SOURCES.items():
        c = dec.decode_basic_string(claim(src, manufacturer), True)
        m = dec.decode_basic_string(heading(src), True)
        ident = c.source_iso_name
        print(f"    src {src} manufacturer number {manufacturer:4d} name {ident.manufacturer_code!r:10}:"
              f" heading {'returned' if m is not None else 'dropped '}"
              + (f" identity.name={m.source_iso_name.name:#x}" if m is not None else ""))
        if m is not None:
            # the property: the returned message carries the identity of the claim of its own source
            assert m.source_iso_name.name == ident.name and m.source == src
    dec.close()


run("exclude by numeric string", exclude_manufacturer_code=["1857"])
run("exclude an unknown manufacturer by number", exclude_manufacturer_code=["1999"])
run("exclude by int", exclude_manufacturer_code=[229])
run("include by number", include_manufacturer_code=["229"])
run("include name + number", include_manufacturer_code=["SIMRAD", "229"])
run("names only (same on both trees)", exclude_manufacturer_code=["gArMiN"])
run("names only (same on both trees)", include_manufacturer_code=["simrad"])
