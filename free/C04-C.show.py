"""show_C: a sender that does NOT advance the fast-packet sequence counter (outside property C04, which
assumes distinct counters on consecutive messages) loses the tail of one message.

Stream PGN 129029, source 0, destination 255, every message sent with sequence counter 0:
  message 1: SID 231, 8 satellites, HDOP 1.11   - frames 5 and 6 are lost
  message 2: SID 232, 11 satellites, HDOP 2.00  - all frames arrive
  clean tree  : the first frame of message 2 is taken for a repetition of the stored first frame, the
                frames 5 and 6 of message 2 fill the holes of message 1 and a message that was never
                sent is returned (SID 231, 8 satellites, HDOP 2.00)
  changed tree: the first frame of message 2 differs from the stored one, so the decoder starts over and
                returns message 2 intact
A byte-identical repetition of the first frame is still ignored on both trees (shown at the end).
"""
import sys
from nmea2000.decoder import NMEA2000Decoder

M1 = ["2f,e7,95,3d,00,73,d6", "29,00,da,04,73,db,c9", "e5,05,80,7d,02,28,5f", "d6,10,f6,9b,50,6c,05",
      "00,00,00,00,13,fc,08", "6f,00,be,00,dd,f2,ff", "ff,00,ff,ff,ff,ff,ff"]
M2 = ["2f,e8,95,3d,00,73,d6", "29,00,da,04,73,db,c9", "e5,05,80,7d,02,28,5f", "d6,10,f6,9b,50,6c,05",
      "00,00,00,00,13,fc,0b", "c8,00,be,00,dd,f2,ff", "ff,00,ff,ff,ff,ff,ff"]
SENT = {(231, 8, 1.11): "message 1", (232, 11, 2.0): "message 2"}

def line(body, idx, seq=0):
    return "2022-09-28-11:36:59.668,3,129029,0,255,8,%02x,%s" % ((seq << 5) | idx, body[idx])

def key(msg):
    by_id = {f.id: f.value for f in msg.fields}
    return (by_id["sid"], by_id["numberOfSvs"], by_id["hdop"])

dec = NMEA2000Decoder()
history = [(M1, i) for i in (0, 1, 2, 3, 4)] + [(M2, i) for i in range(7)]
returned = []
for n, (body, idx) in enumerate(history):
    msg = dec.decode_basic_string(line(body, idx))
    if msg is not None:
        returned.append(key(msg))
        print("arrival %d returned (SID, satellites, HDOP) = %s -> %s" % (n, key(msg), SENT.get(key(msg), "NEVER SENT")))
if not returned:
    print("nothing returned")
if returned == [(232, 11, 2.0)]:
    print("BEHAVIOUR: a different first frame with the same sequence counter starts a new message; message 2 is returned intact")
elif returned and returned[0] not in SENT:
    print("BEHAVIOUR: a first frame with the same sequence counter is always ignored; frames of two messages were mixed")
else:
    print("BEHAVIOUR: other")

# an exact repetition of the first frame while the message is incomplete changes nothing on either tree
dec = NMEA2000Decoder()
got = [dec.decode_basic_string(line(M1, i)) for i in (0, 1, 0, 2, 3, 0, 4, 5, 6)]
assert all(g is None for g in got[:-1]) and got[-1] is not None and key(got[-1]) == (231, 8, 1.11)
print("repeated identical first frame: message 1 still returned once, at its last missing frame")
sys.exit(0)
