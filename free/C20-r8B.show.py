"""show_B: what the serial client tells the user about line noise.

Stream: packet, 37 bytes of marker-free noise, packet, corrupted packet (wrong checksum), packet.
clean tree : 3 packets delivered; the noise is dropped silently (only the decoder's "Invalid checksum"
             warning for the corrupted packet), the client has no rx_stats attribute.
changed    : the same 3 packets delivered; in addition the client logs one "resynchronised" WARNING per
             incident and keeps the counters in client.rx_stats.
Run: cd /tmp/w8/C20 && PYTHONPATH=/tmp/w8/C20 /venv/bin/python _out/show_B.py
"""
import asyncio
import logging

from nmea2000.ioclient import WaveShareNmea2000Gateway
from nmea2000.utils import calculate_canbus_checksum


def packet(i):
    frame_id = (2 << 26) | (127251 << 8) | 7
    p = bytearray(b"\xaa\x55\x01\x02\x01" + frame_id.to_bytes(4, "little") + b"\x08"
                  + b"\xff\xff\xff\x00" + (i + 1).to_bytes(3, "big") + b"\x01" + b"\x00")
    p.append(calculate_canbus_checksum(p))
    return bytes(p)


class Capture(logging.Handler):
    def __init__(self):
        super().__init__(logging.WARNING)
        self.lines = []

    def emit(self, record):
        self.lines.append(f"{record.levelname} {record.name}: {record.getMessage()[:110]}")


class Reader:
    def __init__(self, chunks):
        self.chunks = list(chunks)

    async def read(self, n):
        return self.chunks.pop(0) if self.chunks else b""


async def main():
    cap = Capture()
    root = logging.getLogger("nmea2000")
    root.addHandler(cap)
    root.propagate = False
    bad = bytearray(packet(3))
    bad[12] ^= 0x10
    stream = packet(1) + bytes([0x11, 0xAA, 0x00, 0x55] * 9) + b"\xaa" + packet(2) + bytes(bad) + packet(4)
    client = WaveShareNmea2000Gateway(port="/dev/null")
    got = []

    async def cb(msg):
        got.append(msg.fields[1].raw_value if hasattr(msg.fields[1], "raw_value") else msg)
    client.set_receive_callback(cb)
    client.reader = Reader([stream[i:i + 13] for i in range(0, len(stream), 13)])
    client._buffer = bytearray()
    try:
        while True:
            await client._receive_impl()
    except ConnectionError:
        pass
    await client.queue.join()
    await client.close()
    print("packets delivered:", len(got))
    print("client.rx_stats  :", getattr(client, "rx_stats", "<no such attribute>"))
    print("WARNING+ log records from the library:")
    for line in cap.lines:
        print("   ", line)
    assert len(got) == 3

asyncio.run(main())
