"""show_A: in which order do concurrent send() calls reach the link?

Four tasks call send() at the same moment while the transport applies flow control (every drain()
suspends).  The first caller owns the link; the other three wait.  The program prints the order in
which the messages appear on the wire, and checks that every message is written as exactly the
encoder's packets, in order and contiguously.

clean tree   : waiting messages go out in call order            -> priorities 6 5 1 3
changed tree : waiting messages go out most-urgent-first        -> priorities 6 1 3 5
Exits 0 on both.
"""
import asyncio
import logging

from nmea2000.encoder import NMEA2000Encoder
from nmea2000.ioclient import EByteNmea2000Gateway, State
from nmea2000.message import NMEA2000Message, NMEA2000Field

logging.disable(logging.CRITICAL)


def distance_log(priority: int, log: int) -> NMEA2000Message:
    """PGN 128275 is a fast-packet PGN: 14 bytes of payload -> 3 packets."""
    return NMEA2000Message(PGN=128275, priority=priority, source=1, destination=255, fields=[
        NMEA2000Field(id="date", raw_value=19000),
        NMEA2000Field(id="time", raw_value=100),
        NMEA2000Field(id="log", value=log),
        NMEA2000Field(id="tripLog", value=7),
    ])


class FakeWriter:
    def __init__(self):
        self.written = []

    def write(self, data):
        self.written.append(bytes(data))

    async def drain(self):
        for _ in range(3):          # flow control: the writer is suspended for a while
            await asyncio.sleep(0)

    def close(self):
        pass


async def main():
    client = EByteNmea2000Gateway("127.0.0.1", 1)
    writer = FakeWriter()
    client.writer = writer
    client._state = State.CONNECTED

    priorities = [6, 5, 1, 3]
    messages = [distance_log(p, 1000 + i) for i, p in enumerate(priorities)]
    # what the encoder produces for each message (same encoder state: a fresh one, same call order)
    reference = NMEA2000Encoder()
    expected = [reference.encode_ebyte(m) for m in messages]

    await asyncio.gather(*(asyncio.create_task(client.send(m)) for m in messages))

    wire = writer.written
    order = []
    ok = True
    pos = 0
    while pos < len(wire):
        for i, packets in enumerate(expected):
            if wire[pos] == packets[0]:
                ok &= wire[pos:pos + len(packets)] == packets   # in order, contiguous
                order.append(priorities[i])
                pos += len(packets)
                break
        else:
            ok = False
            break
    ok &= sorted(order) == sorted(priorities) and len(wire) == sum(len(p) for p in expected)

    print("packets on the wire          :", len(wire))
    print("every message contiguous and equal to the encoder's packets:", ok)
    print("order of messages on the wire (by priority):", " ".join(map(str, order)))
    print("state:", client.state.name)
    await client.close()
    assert ok


asyncio.run(main())
