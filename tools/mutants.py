#!/usr/bin/env python3
"""Sensitivity self-test: small one-site mutants of /repo, each applied to a scratch copy under /tmp (removed afterwards)
and run against the named checks with --runs 6000.  usage: tools/mutants.py [mutant-name ...]
A mutant marked equivalent-on-this-property is expected to stay quiet for that check."""
import os, shutil, subprocess, sys, tempfile
D = 'nmea2000/decoder.py'; E = 'nmea2000/encoder.py'; I = 'nmea2000/ioclient.py'
MUTS_IO = {
 "no_connect_lock": ("C13,C14", I, [("        if self.lock.locked():\n            self.logger.info(\"connect is already running\")\n            return\n", ""), ("        async with self.lock:\n            if self._state == State.CONNECTED:", "        if True:\n            if self._state == State.CONNECTED:")]),
 "zero_backoff": ("C13", I, [("wait=wait_exponential(multiplier=0.5, max=10)", "wait=wait_exponential(multiplier=0, max=10)")]),
 "no_cap": ("C13", I, [("wait=wait_exponential(multiplier=0.5, max=10)", "wait=wait_exponential(multiplier=0.5, max=10**9)")]),
 "close_no_cancel_queue": ("C14", I, [("        if self._process_queue_task and not self._process_queue_task.done():\n            self._process_queue_task.cancel()", "        if False:\n            pass")]),
 "dup_status": ("C14", I, [("        if self._state == new_state:\n            return  # State hasn't changed, no need to do anything\n", "")]),
 "status_exc_propagates": ("C14,C13", I, [("            except Exception as e:\n                self.logger.error(f\"Error in status callback: {e}\", exc_info=True)", "            except ZeroDivisionError as e:\n                pass")]),
 "recv_cb_exc_kills": ("C12", I, [("                except Exception as e:\n                    self.logger.error(f\"Error in receive callback: {e}\", exc_info=True)", "                except ZeroDivisionError as e:\n                    pass")]),
 "lifo_queue": ("C12", I, [("self.queue = asyncio.Queue()", "self.queue = asyncio.LifoQueue()")]),
 "no_drain": ("C19", I, [("                    await self.writer.drain()\n                    self.logger.debug(f\"Sent", "                    self.logger.debug(f\"Sent")]),
 "close_keeps_writer": ("C14", I, [("        if self.writer:\n            self.writer.close()\n        # Cancel the receive loop", "        # Cancel the receive loop")]),
 "decode_err_kills_text": ("C12,C13", I, [("            self.logger.warning(f\"decoding failed. text: {line}, bytes: {data.hex()}. Error: {e}\", exc_info=True)\n            return", "            self.logger.warning(f\"decoding failed. text: {line}, bytes: {data.hex()}. Error: {e}\", exc_info=True)\n            raise")]),
 "send_after_close_reconnects": ("C14", I, [("        except Exception as ex:\n            if self._state != State.CLOSED:\n                self.logger.error(f\"Connection lost while sending.", "        except Exception as ex:\n            if True:\n                self.logger.error(f\"Connection lost while sending.")]),
}

MUTS_CODEC = {
 "no_first_frame_guard": ("C04", D, [("        if frame_counter != 0 and fast_pgn.payload_length == 0:", "        if False:")]),
 "arrival_order_concat": ("C04,C03", D, [("for idx in sorted(fast_pgn.frames) for b in", "for idx in fast_pgn.frames for b in")]),
 "complete_gt": ("C03,C04", D, [("        if fast_pgn.bytes_stored >= fast_pgn.payload_length:", "        if fast_pgn.bytes_stored > fast_pgn.payload_length:")]),
 "usb_len_byte": ("C06,C03", E, [("            msg_bytes += bytes([len(message)])", "            msg_bytes += bytes([8])")]),
 "yd_no_crlf": ("C06", E, [('" " + self.bytes_to_hex_string(message) + "\\r\\n"', '" " + self.bytes_to_hex_string(message) + "\\n"')]),
 "yd_reject_T": ("C07,C12", D, [('        if parts[1] not in ["R", "T"]:', '        if parts[1] not in ["R"]:')]),
 "plain_len_ignored": ("C07", D, [("        can_data = parts[6:6 + length][::-1]", "        can_data = parts[6:][::-1]")]),
 "actisense_dest_shift": ("C07,C06", D, [("        dest = (n >> 4) & 0xFF", "        dest = (n >> 4) & 0x7F")]),
 "tcp_len_mask": ("C07,C12", D, [("        data_length = type_byte & 0x0F", "        data_length = type_byte & 0x07")]),
 "usb_no_checksum": ("C20,C06,C12", D, [("        if checksum != packet[19]:", "        if False:")]),
 "exclude_after_reassembly": ("C10", D, [("            if pgn in self.exclude_pgns:\n                logger.debug(f\"Excluding PGN: {pgn}\")\n                return None", "            if pgn in self.exclude_pgns and not NMEA2000Decoder._isFastPGN(pgn):\n                return None")]),
 "claim_not_stored_when_filtered": ("C10,C11", D, [("            if self.iso_claim_filter:\n                logger.debug(\"Excluding ISO_CLAIM_PGN\")\n                return None", "            pass"), ("        if nmea2000Message.PGN == ISO_CLAIM_PGN:", "        if nmea2000Message.PGN == ISO_CLAIM_PGN and self.iso_claim_filter:\n            return None\n        if nmea2000Message.PGN == ISO_CLAIM_PGN:")]),
 "mfg_exclude_claims_too": ("C11", D, [("        if pgn != ISO_CLAIM_PGN: # The ISO_CLAIM_PGN should bypass", "        if True: # The ISO_CLAIM_PGN should bypass")]),
 "window_only_first": ("C11", D, [("                if self.started_at > datetime.now() - timedelta(minutes=10):", "                if self.started_at > datetime.now() - timedelta(minutes=10) and len(self.source_to_iso_name) == 0:")]),
 "dump_before_filter": ("C15", D, [("        # Check if the PGN should be excluded or included by ID\n", "        if self.dump_TextIOWrapper is not None and len(self.dump_include_pgns)+len(self.dump_include_pgns_ids) == 0:\n            self.dump_TextIOWrapper.write(nmea2000Message.to_json() + \"\\n\")\n        # Check if the PGN should be excluded or included by ID\n")]),
 "close_keeps_handle": ("C15", D, [("            self.dump_TextIOWrapper.close()\n", "            self.dump_TextIOWrapper.flush()\n")]),
 "ebyte_ff_bit": ("C06", E, [("            type_byte = (len(message) & 0x0F) | (1 << 7)", "            type_byte = (len(message) & 0x07) | (1 << 7)")]),
 "hdr_prio": ("C06,C03", E, [("        frame_id = (priority & 0x7) << 26", "        frame_id = (priority & 0x3) << 26")]),
 "ws_buffer_cut": ("C20,C12", I, [("            self._buffer = self._buffer[start + 20:]", "            self._buffer = self._buffer[start + 19:]")]),
 "ws_read_size": ("C20,C12", I, [("            if start + 20 > len(self._buffer):", "            if start + 20 >= len(self._buffer):")]),
 "text_strip": ("C12", I, [("        line = data.decode('utf-8', errors='ignore').strip()", "        line = data.decode('utf-8').strip()")]),
 "seed_map_when_off": ("C19,C12", I, [("        if not build_network_map:\n            self.seed_network_map = False", "        pass")]),
}

MUTS = dict(MUTS_IO); MUTS.update(MUTS_CODEC)
only = sys.argv[1:]
missed = []
for name, (ids, f, edits) in MUTS.items():
    if only and name not in only:
        continue
    d = tempfile.mkdtemp(prefix="vmut.", dir="/tmp")
    try:
        shutil.copytree("/repo/nmea2000", d + "/nmea2000", ignore=shutil.ignore_patterns("__pycache__"))
        shutil.copy("/repo/canboat.json", d)
        s = open(d + "/" + f).read()
        ok = True
        for a, b in edits:
            if a not in s:
                print(name, "EDIT DOES NOT MATCH (tree changed):", a[:60]); ok = False
            s = s.replace(a, b)
        open(d + "/" + f, "w").write(s)
        if not ok:
            continue
        hit = False
        for pid in ids.split(","):
            r = subprocess.run(["./vcheck", "run", pid, "--runs", "6000"], cwd="/verif",
                               env=dict(os.environ, VERIF_REPO=d, VERIF_NO_EVIDENCE="1"), capture_output=True, text=True)
            lines = [l for l in r.stdout.splitlines() if "check=" in l]
            hit = hit or r.returncode == 1
            print("%-32s %s rc=%d %s" % (name, pid, r.returncode, (lines[0].strip()[:140] if lines else r.stderr[-200:].replace("\n", " "))))
        if not hit:
            missed.append(name)
    finally:
        shutil.rmtree(d, ignore_errors=True)
print("not reported by any named check:", missed)
