#!/usr/bin/env python3
import subprocess
p = "/verif/DESIGN.md"
s = open(p).read()
a = s.index("<!-- SEEDED-TABLE-BEGIN -->") + len("<!-- SEEDED-TABLE-BEGIN -->")
b = s.index("<!-- SEEDED-TABLE-END -->")
t = subprocess.run(["/verif/tools/seeded_table.py"], capture_output=True, text=True).stdout
open(p, "w").write(s[:a] + "\n" + t + s[b:])
