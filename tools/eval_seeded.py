#!/usr/bin/env python3
"""usage: tools/eval_seeded.py <patch.diff> <demo.py> <ID>[,<ID>...] [--runs N] [--keep-as name]
Confirms a seeded change in a scratch worktree (tests pass, demo fails with / passes without), then runs the
named checks against the patched tree.  The scratch worktree is removed afterwards."""
import json, os, shutil, subprocess, sys, tempfile, time

def sh(cmd, cwd=None, env=None, timeout=1800):
    r = subprocess.run(cmd, shell=True, cwd=cwd, env=env, capture_output=True, text=True, timeout=timeout)
    return r.returncode, (r.stdout + r.stderr)

def main():
    patch, demo, ids = sys.argv[1], sys.argv[2], sys.argv[3].split(",")
    runs = None
    if "--runs" in sys.argv:
        runs = sys.argv[sys.argv.index("--runs") + 1]
    tier = "quick"
    wt = tempfile.mkdtemp(prefix="vseed.", dir="/tmp")
    os.rmdir(wt)
    res = {"patch": patch, "checks": {}}
    try:
        rc, out = sh("git -C /repo worktree add -q --detach %s HEAD" % wt)
        assert rc == 0, out
        env = dict(os.environ, PYTHONPATH=wt, PYTHONDONTWRITEBYTECODE="1")
        rc, out = sh("/venv/bin/python %s" % demo, cwd=wt, env=env, timeout=300)
        res["demo_clean_rc"] = rc
        rc, out = sh("git apply %s" % patch, cwd=wt)
        res["applies"] = rc == 0
        if rc != 0:
            print(json.dumps(res)); print(out); return 1
        rc, out = sh("/venv/bin/python -m pytest -q -p no:cacheprovider --timeout=900 2>&1 | tail -1", cwd=wt, env=env)
        res["tests"] = out.strip()
        rc, out = sh("/venv/bin/python %s" % demo, cwd=wt, env=env, timeout=300)
        res["demo_patched_rc"] = rc
        res["demo_tail"] = out.strip().splitlines()[-3:]
        for pid in ids:
            t0 = time.time()
            cmd = "./vcheck run %s --tier %s" % (pid, tier) + ((" --runs %s" % runs) if runs else "") + ((" --budget %s" % os.environ["EVAL_BUDGET"]) if os.environ.get("EVAL_BUDGET") else "")
            e2 = dict(os.environ, VERIF_REPO=wt, VERIF_NO_EVIDENCE="1")
            rc, out = sh(cmd, cwd="/verif", env=e2, timeout=3600)
            lines = [l for l in out.splitlines() if l.startswith("VIOLATION") or l.startswith("  check=") or "HARNESS" in l]
            res["checks"][pid] = {"rc": rc, "wall": round(time.time() - t0, 1), "lines": lines[:8]}
    finally:
        sh("git -C /repo worktree remove --force %s" % wt)
        shutil.rmtree(wt, ignore_errors=True)
    print(json.dumps(res, indent=1))
    return 0

sys.exit(main())
