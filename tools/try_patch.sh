#!/bin/sh
# usage: tools/try_patch.sh <patch.diff> <ID> [extra vcheck args...]
# Applies the patch to a scratch copy of /repo outside /repo and /verif, runs the check against it, removes the copy.
set -e
PATCH="$1"; ID="$2"; shift 2
D=$(mktemp -d /tmp/vmut.XXXXXX)
trap 'rm -rf "$D"' EXIT
cp -r /repo/nmea2000 /repo/canboat.json "$D"/
find "$D" -name __pycache__ -type d -exec rm -rf {} + 2>/dev/null || true
(cd "$D" && git init -q . && git apply --unsafe-paths "$PATCH") || { echo "PATCH DOES NOT APPLY"; exit 3; }
cd "$(dirname "$0")/.."
VERIF_REPO="$D" VERIF_NO_EVIDENCE=1 ./vcheck run "$ID" "$@"
