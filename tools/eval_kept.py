#!/usr/bin/env python3
"""usage: tools/eval_kept.py <flat-dir> [--all] : re-runs the kept behaviour-preserving / free changes (<ID>-<tag>.diff in /verif/harmless or
/verif/free) against /repo HEAD and the current checks.  By default only the check of the property the change was written for
is run (--all: every check related to the files it touches, as tools/eval_refactor.py does).  Prints one line per change."""
import glob, json, os, re, shutil, subprocess, sys, tempfile
REL = {"ioclient.py": ["C12", "C13", "C14", "C19", "C20", "C06", "C11"], "decoder.py": ["C03", "C04", "C07", "C10", "C11", "C15", "C16", "C12", "C20"],
       "encoder.py": ["C03", "C06", "C19"], "message.py": ["C15", "C11", "C16"], "utils.py": ["C20", "C06"], "cli.py": []}
def sh(cmd, cwd=None, env=None, timeout=3600):
    r = subprocess.run(cmd, shell=True, cwd=cwd, env=env, capture_output=True, text=True, timeout=timeout)
    return r.returncode, r.stdout + r.stderr
src = sys.argv[1]
allchecks = "--all" in sys.argv
only = [a for a in sys.argv[2:] if not a.startswith("--")]
out = {}
for patch in sorted(glob.glob(os.path.join(src, "*.diff"))):
    name = os.path.basename(patch)[:-5]
    pid = name[:3]
    if only and not any(name.startswith(o) for o in only):
        continue
    files = set(re.findall(r"^\+\+\+ b/nmea2000/(\S+)", open(patch).read(), re.M))
    checks = [pid] + ([c for f in files for c in REL.get(f, []) if c != pid] if allchecks else [])
    checks = list(dict.fromkeys(checks))
    wt = tempfile.mkdtemp(prefix="vkept.", dir="/tmp"); os.rmdir(wt)
    res = {"checks": {}}
    try:
        rc, o = sh("git -C /repo worktree add -q --detach %s HEAD && cd %s && (git apply %s || git apply --3way %s)" % (wt, wt, patch, patch))
        res["applies"] = rc == 0
        if rc == 0:
            env = dict(os.environ, PYTHONPATH=wt, PYTHONDONTWRITEBYTECODE="1")
            rc, o = sh("/venv/bin/python -m pytest -q -p no:cacheprovider --timeout=900 2>&1 | tail -1", cwd=wt, env=env)
            res["tests"] = o.strip()
            for c in checks:
                rc, o = sh("./vcheck run %s --budget 300" % c, cwd="/verif", env=dict(os.environ, VERIF_REPO=wt, VERIF_NO_EVIDENCE="1"))
                res["checks"][c] = {"rc": rc, "lines": [l.strip()[:240] for l in o.splitlines() if "check=" in l or "HARNESS" in l][:2]}
    finally:
        sh("git -C /repo worktree remove --force %s" % wt)
        shutil.rmtree(wt, ignore_errors=True)
    bad = {c: r["rc"] for c, r in res["checks"].items() if r["rc"] != 0}
    print(name, "tests", res.get("tests"), ("ALARMS" if bad else "quiet") if res.get("applies") else "DOES NOT APPLY TO HEAD", bad, flush=True)
    for c in bad:
        for l in res["checks"][c]["lines"]:
            print("      ", c, l, flush=True)
    out[name] = res
json.dump(out, open(os.environ.get("EVAL_OUT", "/tmp/kept_eval.json"), "w"), indent=1)
