#!/bin/sh
# usage: tools/quiet.sh <first-seed> <last-seed> [tier] : every check under many seeds on the current tree; prints any non-zero exit
T=${3:-quick}
s=$1
while [ $s -le $2 ]; do
  for p in C03 C04 C06 C07 C10 C11 C12 C13 C14 C15 C16 C19 C20; do
    out=$(VERIF_SEED=$s VERIF_NO_EVIDENCE=1 ./vcheck run $p --tier $T 2>&1); rc=$?
    echo "seed=$s $p rc=$rc $(echo "$out" | head -1)"
    [ $rc -ne 0 ] && echo "$out" | tail -5
  done
  s=$((s+1))
done
