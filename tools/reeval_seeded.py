#!/usr/bin/env python3
"""usage: tools/reeval_seeded.py [name-prefix ...] : re-runs every /verif/seeded/<name> against /repo HEAD and the current checks,
rewriting the 'confirmed' and 'checks' parts of its meta.json"""
import glob, json, os, subprocess, sys
sel = sys.argv[1:]
bad = []
for d in sorted(glob.glob("/verif/seeded/*/")):
    name = os.path.basename(d.rstrip("/"))
    if sel and not any(name.startswith(s) for s in sel):
        continue
    mf = d + "meta.json"
    m = json.load(open(mf))
    ids = [m["property"]] + [x for x in m.get("also_run", []) if x != m["property"]]
    r = subprocess.run(["/verif/tools/eval_seeded.py", d + "patch.diff", d + "demo.py", ",".join(ids)], capture_output=True, text=True)
    try:
        res = json.loads(r.stdout)
    except Exception:
        print(name, "EVAL FAILED", r.stdout[-300:], r.stderr[-300:]); bad.append(name); continue
    if not res.get("applies"):
        print(name, "PATCH NO LONGER APPLIES"); bad.append(name); continue
    ok = res.get("demo_clean_rc") == 0 and res.get("demo_patched_rc") not in (0, None) and "71 passed" in res.get("tests", "")
    m["confirmed"].update({"existing_tests": res["tests"], "demo_exit_clean_tree": res["demo_clean_rc"], "demo_exit_with_change": res["demo_patched_rc"]})
    m["checks"] = {k: {"detected": c["rc"] == 1, "exit": c["rc"], "wall_s": c["wall"], "first_lines": c["lines"][:2]} for k, c in res["checks"].items()}
    json.dump(m, open(mf, "w"), indent=1)
    print(name, "confirmed" if ok else "NOT CONFIRMED", {k: c["rc"] for k, c in res["checks"].items()})
    if not ok or not any(c["rc"] == 1 for c in res["checks"].values()):
        bad.append(name)
print("needs attention:", bad)
