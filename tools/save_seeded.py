#!/usr/bin/env python3
"""usage: tools/save_seeded.py <srcdir> <round-tag> : copies <srcdir>/<ID>/_out/{A,B}.* into /verif/seeded/<ID>-<tag><X>/ with meta.json
built from the evaluation results in /tmp/evalres.<ID>.<X>.json"""
import json, os, shutil, sys
src, tag = sys.argv[1], sys.argv[2]
for pid in "C03 C04 C06 C07 C10 C11 C12 C13 C14 C15 C16 C19 C20".split():
    for x in "AB":
        d = os.path.join(src, pid, "_out")
        if not os.path.exists(os.path.join(d, x + ".diff")):
            continue
        resf = "/tmp/evalres.%s.%s.json" % (pid, x)
        if not os.path.exists(resf):
            continue
        r = json.load(open(resf))
        if not (r.get("applies") and r.get("demo_clean_rc") == 0 and r.get("demo_patched_rc") not in (0, None) and "71 passed" in r.get("tests", "")):
            print("NOT CONFIRMED, skipped:", pid, x, r.get("tests"), r.get("demo_clean_rc"), r.get("demo_patched_rc"))
            continue
        out = "/verif/seeded/%s-%s%s" % (pid, tag, x)
        os.makedirs(out, exist_ok=True)
        shutil.copy(os.path.join(d, x + ".diff"), os.path.join(out, "patch.diff"))
        shutil.copy(os.path.join(d, "demo_%s.py" % x), os.path.join(out, "demo.py"))
        if os.path.exists(os.path.join(d, x + ".md")):
            shutil.copy(os.path.join(d, x + ".md"), os.path.join(out, "notes.md"))
        notes = open(os.path.join(out, "notes.md")).read() if os.path.exists(os.path.join(out, "notes.md")) else ""
        meta = {"property": pid, "origin": "independent sub-agent given only the property text and a scratch worktree (round %s)" % tag,
                "needs_to_manifest": notes.strip().split("\n\n")[0][:600] if notes else "",
                "confirmed": {"applies_to_repo_head": True, "existing_tests": r["tests"], "demo_exit_clean_tree": r["demo_clean_rc"],
                              "demo_exit_with_change": r["demo_patched_rc"],
                              "how": "tools/eval_seeded.py: fresh scratch worktree of /repo HEAD, demo on clean tree, git apply, pytest, demo, then the property's quick check with VERIF_REPO pointing at the patched worktree; worktree removed"},
                "checks": {k: {"detected": c["rc"] == 1, "exit": c["rc"], "wall_s": c["wall"], "first_lines": c["lines"][:2]} for k, c in r["checks"].items()}}
        json.dump(meta, open(os.path.join(out, "meta.json"), "w"), indent=1)
        print("saved", out, {k: c["rc"] for k, c in r["checks"].items()})
