#!/usr/bin/env python3
import glob, json, os
rows = []
for d in sorted(glob.glob("/verif/seeded/*/meta.json")):
    m = json.load(open(d))
    name = os.path.basename(os.path.dirname(d))
    notes = os.path.join(os.path.dirname(d), "notes.md")
    first = ""
    if os.path.exists(notes):
        for line in open(notes):
            t = line.strip()
            if t and not t.startswith("#"):
                first = t
                break
    what = m.get("summary") or first
    what = what.replace("|", "/")
    if len(what) > 170:
        what = what[:167] + "..."
    det = []
    for k, c in m["checks"].items():
        ck = ""
        for l in c.get("first_lines", []):
            if "check=" in l:
                ck = l.split("check=")[1].split(" ")[0]
                break
        det.append("%s: %s" % (k, ("**%s**" % ck) if c["detected"] else ("MISSED" if c["exit"] == 0 else "harness error")))
    rows.append("| %s | %s | %s |" % (name, what, "; ".join(det)))
print("| seeded change | what it does / needs | detected by (quick tier) |")
print("|---|---|---|")
print("\n".join(rows))
