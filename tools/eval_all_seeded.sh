#!/bin/sh
# usage: tools/eval_all_seeded.sh <dir-with-ID/_out> : evaluates every seeded change with its own property's quick check
for id in ${IDS:-C03 C04 C06 C07 C10 C11 C12 C13 C14 C15 C16 C19 C20}; do for x in A B; do
  [ -f "$1/$id/_out/$x.diff" ] || continue
  echo "=== $id $x"
  /verif/tools/eval_seeded.py "$1/$id/_out/$x.diff" "$1/$id/_out/demo_$x.py" $id > "/tmp/evalres.$id.$x.json"
  python3 -c "
import json,sys; r=json.load(open('/tmp/evalres.$id.$x.json')); print('applies',r.get('applies'),'tests',r.get('tests'),'demo clean/patched',r.get('demo_clean_rc'),r.get('demo_patched_rc'))
for k,c in r['checks'].items(): print(' ',k,'rc',c['rc'],'wall',c['wall']); [print('    ',l[:200]) for l in c['lines'][:2]]"
done; done
