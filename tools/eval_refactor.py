#!/usr/bin/env python3
"""usage: tools/eval_refactor.py <dir> [--runs N] : <dir>/<ID>/_out/{A,B,C}.diff are behaviour-preserving changes.
Each is applied to a scratch worktree of /repo HEAD; the existing tests and the checks related to the files it touches are
run against it.  Any VIOLATION (exit 1) is a false alarm candidate; exit 2 is seam drift / harness trouble."""
import json, os, re, shutil, subprocess, sys, tempfile
REL = {"ioclient.py": ["C12", "C13", "C14", "C19", "C20", "C06", "C11"], "decoder.py": ["C03", "C04", "C07", "C10", "C11", "C15", "C16", "C12", "C20"],
       "encoder.py": ["C03", "C06", "C19"], "message.py": ["C15", "C11", "C16"], "utils.py": ["C20", "C06"], "cli.py": []}
def sh(cmd, cwd=None, env=None, timeout=3600):
    r = subprocess.run(cmd, shell=True, cwd=cwd, env=env, capture_output=True, text=True, timeout=timeout)
    return r.returncode, r.stdout + r.stderr
src = sys.argv[1]
runs = sys.argv[sys.argv.index("--runs") + 1] if "--runs" in sys.argv else "6000"
base = sys.argv[sys.argv.index("--base") + 1] if "--base" in sys.argv else "HEAD"
only = [a for a in sys.argv[2:] if re.fullmatch(r"C\d\d", a)]
out = {}
for pid in sorted(os.listdir(src)):
    d = os.path.join(src, pid, "_out")
    if not os.path.isdir(d) or (only and pid not in only):
        continue
    for x in "ABC":
        patch = os.path.join(d, x + ".diff")
        if not os.path.exists(patch):
            continue
        files = set(re.findall(r"^\+\+\+ b/nmea2000/(\S+)", open(patch).read(), re.M))
        checks = [pid] + [c for f in files for c in REL.get(f, []) if c != pid]
        checks = list(dict.fromkeys(checks))
        wt = tempfile.mkdtemp(prefix="vref.", dir="/tmp"); os.rmdir(wt)
        res = {"files": sorted(files), "checks": {}}
        try:
            rc, o = sh("git -C /repo worktree add -q --detach %s %s && cd %s && git apply %s" % (wt, base, wt, patch))
            res["applies"] = rc == 0
            if rc == 0:
                env = dict(os.environ, PYTHONPATH=wt, PYTHONDONTWRITEBYTECODE="1")
                rc, o = sh("/venv/bin/python -m pytest -q -p no:cacheprovider --timeout=900 2>&1 | tail -1", cwd=wt, env=env)
                res["tests"] = o.strip()
                for c in checks:
                    rc, o = sh("./vcheck run %s --budget 300 %s" % (c, "" if runs == "tier" else "--runs " + runs), cwd="/verif", env=dict(os.environ, VERIF_REPO=wt, VERIF_NO_EVIDENCE="1"))
                    lines = [l.strip() for l in o.splitlines() if "check=" in l or "HARNESS" in l]
                    res["checks"][c] = {"rc": rc, "lines": lines[:3]}
                    if rc != 0:
                        # keep the replay for analysis
                        for l in o.splitlines():
                            if l.startswith("VIOLATION"):
                                rp = l.split("replay=")[1].strip()
                                keep = "/tmp/falsealarm/%s%s-%s" % (pid, x, os.path.basename(rp))
                                os.makedirs("/tmp/falsealarm", exist_ok=True)
                                shutil.copy(rp, keep)
        finally:
            sh("git -C /repo worktree remove --force %s" % wt)
            shutil.rmtree(wt, ignore_errors=True)
        out[pid + x] = res
        bad = {c: r["rc"] for c, r in res["checks"].items() if r["rc"] != 0}
        print(pid + x, "files", res["files"], "tests", res.get("tests"), ("ALARMS" if bad else "quiet") if res.get("applies") else "PATCH DOES NOT APPLY", bad, flush=True)
        for c in bad:
            for l in res["checks"][c]["lines"][:2]:
                print("      ", c, l[:260], flush=True)
json.dump(out, open(os.environ.get("EVAL_OUT", "/tmp/refactor_eval.json"), "w"), indent=1)
