#!/usr/bin/env python3
"""Create scratch worktrees of /repo and sub-agent prompts for one round.

usage: tools/mkprompts.py <dir> break|preserve|free

The prompt contains only the property text (never anything from /verif except, for `break`, the
one-line summaries of ideas already used, so that rounds do not repeat each other).
"""
import glob
import json
import os
import subprocess
import sys

IDS = "C03 C04 C06 C07 C10 C11 C12 C13 C14 C15 C16 C19 C20".split()

HEAD = '''You are working in a scratch git worktree of the Python library tomer-w/nmea2000 (NMEA 2000 encoder/decoder, fast-packet reassembly, asyncio TCP/serial gateway clients) at @DIR@/@ID@ . Python: /venv/bin/python (3.12). Run the existing tests with:
  cd @DIR@/@ID@ && PYTHONPATH=@DIR@/@ID@ /venv/bin/python -m pytest -q -p no:cacheprovider
(all 71 pass on the clean tree; tests/test_tcp_client.py binds the fixed port 127.0.0.1:8881 and other people may run the suite at the same moment, so if only those tests fail with an OSError simply re-run). There is no network access. Work ONLY inside @DIR@/@ID@ ; do not read, list or touch /verif or /repo or any other @DIR@/* directory. NEVER use `git stash` (the stash is shared between worktrees and other people are working in sibling worktrees): to switch between the clean and the changed tree use `git diff > file`, `git apply file`, `git apply -R file` and `git checkout -- .`.
'''

BREAK = HEAD + '''
Here is a semantic property of the library that should hold:

@PROP@

TASK: produce TWO different, independent source changes (call them A and B) to the library (files under nmea2000/ only; never edit tests/), each of which BREAKS this property while the package still imports and the existing, unedited test suite still passes. Make them realistic bugs a maintainer could plausibly introduce (refactoring slip, wrong condition, off-by-one, missed edge case, a dropped or misplaced await/lock/cancel/check, an "optimisation", a new small feature or option with a flaw, a robustness measure that backfires, two cooperating sites that each look fine alone), and make them need something SPECIFIC to manifest - a particular interleaving of tasks, a fault or a user call at a particular instant, a multi-step sequence of operations, a particular history of inputs, an unusual but legal configuration or input value - not something that ordinary use would expose at once. Subtle is better than blatant: the effect should show only in a narrow window or for a narrow class of inputs/histories, but then be a clear violation of the property as worded. Read the statement clause by clause and the quantifier dimension by dimension, and aim at a clause/dimension combination that none of the ideas below touches. @EXTRA@

Many ideas have ALREADY been used by others for this property - do not repeat them or close variants; break a different clause, in a different place, through a different mechanism:
@TAKEN@

For each change provide a demonstration: a small standalone Python program (library + asyncio + standard library only; it may use in-memory fake streams, monkeypatching, or a server on 127.0.0.1 on a random free port) that exits 0 on the unmodified tree and exits non-zero, printing which part of the property is broken, when the change is applied. Keep demos fast (< 30 s) and deterministic.

Deliver, inside @DIR@/@ID@/_out/ :
  A.diff      - `git diff` of the library change only; must apply with `git apply` to the clean HEAD
  demo_A.py   - the demonstration (run as: cd @DIR@/@ID@ && PYTHONPATH=@DIR@/@ID@ /venv/bin/python _out/demo_A.py)
  A.md        - FIRST LINE: one sentence (<= 200 characters) saying what the change does and what it needs to manifest; then which clause breaks, and the commands you ran with their results
and the same three files for B.

Verify yourself, for A and for B separately: with the diff applied the test suite still passes (71 passed) and the demo exits non-zero; on the clean tree the demo exits 0. At the end leave the tracked files clean (`git checkout -- .`) so only _out/ remains as untracked content. Finish with a short report (a few lines per change).
'''

PRESERVE = HEAD + '''
Here is a semantic property of the library that holds on the current tree:

@PROP@

TASK (this is the opposite of bug seeding): produce THREE different, independent source changes (A, B, C) to the library (files under nmea2000/ only; never edit tests/) that a maintainer could plausibly make and that PRESERVE this property completely - the library's behaviour as described by the statement must stay exactly as required for every input, schedule and fault in the quantifier - while changing the code as much as is reasonable in the area the property is anchored in. The purpose is to find out whether an external checker of this property raises false alarms on legitimate code changes, so aim for changes that are semantically harmless but structurally or quantitatively noticeable. Ideas (pick different kinds for A, B, C):
 - refactor: restructure functions, extract helpers, inline code, rename private attributes/methods/local variables, reorder independent statements, replace a loop by an equivalent construct, use a different but equivalent asyncio/stdlib API, change data structures;
 - re-tune within what the statement allows: different internal constants, log messages or levels, exception types/messages for rejected input where the statement does not fix them, internal timing;
 - harmless additions: optional constructor parameters with safe defaults, extra public helper methods, statistics counters, type annotations, input validation that rejects only what was already rejected.
Do NOT change public names that users of the property rely on (class names, connect/send/close, set_receive_callback/set_status_callback, state, decode_*/encode_* entry points, message/field attributes, constructor keyword names). Each change must keep the existing suite green (71 passed).
''' + '''
For each change write a short justification of why the property is untouched, and a small standalone sanity program that exercises the changed code path and exits 0 on both the clean and the changed tree.

Deliver, inside @DIR@/@ID@/_out/ :
  A.diff, B.diff, C.diff - `git diff` of each library change alone; each must apply with `git apply` to the clean HEAD
  sanity_A.py, sanity_B.py, sanity_C.py (run as: cd @DIR@/@ID@ && PYTHONPATH=@DIR@/@ID@ /venv/bin/python _out/sanity_A.py)
  A.md, B.md, C.md - FIRST LINE: one sentence (<= 200 characters) describing the change; then the justification and the commands you ran with their results.
At the end leave the tracked files clean (`git checkout -- .`) so only _out/ remains as untracked content. Finish with a short report.
'''

FREE = HEAD + '''
Here is a semantic property of the library that holds on the current tree:

@PROP@

TASK (this is NOT bug seeding): produce THREE different, independent source changes (A, B, C) to the library (files under nmea2000/ only; never edit tests/) that a maintainer could plausibly make, that visibly CHANGE the library's observable behaviour, and that nevertheless keep this property true exactly as worded, for every input, schedule and fault in its quantifier. The purpose is to find out whether an external checker of this property demands MORE than the statement says: so look for every freedom the wording leaves - things the statement does not fix, bounds it gives only as inequalities or only qualitatively ("eventually", "bounded", "at most", "growing", "some exception", "no more than once"), behaviour on inputs or in situations outside its quantifier, order or number of things it does not count, timing it does not constrain, what happens after the point where its obligations end, extra notifications/log lines/attributes/return values it does not forbid, stricter or more lenient treatment of cases it leaves open - and change the behaviour inside that freedom, as far as the wording allows, in the code the property is anchored in. Read the statement clause by clause: for each clause ask "what is the most different behaviour that still satisfies this clause?". Each change should be something a maintainer could defend as a reasonable design decision (a feature, a different policy, a tuning, a protocol nicety), not an obfuscation. Do NOT change public names users rely on (class names, connect/send/close, set_receive_callback/set_status_callback, state, decode_*/encode_* entry points, message/field attributes, constructor keyword names; new optional keywords with defaults are fine). Each change must keep the existing suite green (71 passed). If you are not sure a change keeps the property as worded, do not deliver it - pick another.

@FREETAKEN@
For each change write (1) what observable behaviour changes, (2) clause by clause, why the property as worded still holds, and a small standalone program `show_X.py` that makes the behaviour difference visible (prints it) and exits 0 on both the clean and the changed tree.

Deliver, inside @DIR@/@ID@/_out/ :
  A.diff, B.diff, C.diff - `git diff` of each library change alone; each must apply with `git apply` to the clean HEAD
  show_A.py, show_B.py, show_C.py (run as: cd @DIR@/@ID@ && PYTHONPATH=@DIR@/@ID@ /venv/bin/python _out/show_A.py)
  A.md, B.md, C.md - FIRST LINE: one sentence (<= 200 characters) describing the change; then (1) and (2) and the commands you ran with their results.
At the end leave the tracked files clean (`git checkout -- .`) so only _out/ remains as untracked content. Finish with a short report.
'''


def main():
    d, mode = sys.argv[1], sys.argv[2]
    extra = sys.argv[3] if len(sys.argv) > 3 else ""
    os.makedirs(d, exist_ok=True)
    taken = {}
    for f in sorted(glob.glob('/verif/seeded/*/meta.json')):
        m = json.load(open(f))
        taken.setdefault(m['property'], []).append(m.get('summary', '')[:200])
    for l in open('/verif/properties.jsonl'):
        p = json.loads(l)
        if p['id'] not in IDS:
            continue
        wt = os.path.join(d, p['id'])
        if not os.path.isdir(wt):
            subprocess.check_call(["git", "-C", "/repo", "worktree", "add", "-q", "--detach", wt, "HEAD"])
        prop = "ID: %s\nTitle: %s\nStatement: %s\nQuantified over: %s\n" % (p['id'], p['title'], p['statement'], p['quantifier']['text'])
        if mode == "break":
            prop += "Why the existing tests cannot settle it: %s\n" % p['why_tests_cant']
        prop += "Anchored in files: %s\n" % ", ".join(p['anchors']['files'])
        t = {"break": BREAK, "preserve": PRESERVE, "free": FREE}[mode]
        t = t.replace('@DIR@', d).replace('@ID@', p['id']).replace('@PROP@', prop).replace('@EXTRA@', extra)
        t = t.replace('@TAKEN@', "\n".join(" - " + x for x in taken.get(p['id'], [])))
        ft = [open(f).readline().strip()[:220] for f in sorted(glob.glob('/verif/free/%s-*.md' % p['id']))]
        t = t.replace('@FREETAKEN@', ("Others have ALREADY delivered the following changes for this property - do not repeat them or close "
                                      "variants; use a different freedom of the wording, in a different place (constants and time limits, "
                                      "order and number of events, what happens at the edges of the quantifier, configuration options, "
                                      "resource policies, protocol niceties, error reporting):\n" + "\n".join(" - " + x for x in ft) + "\n") if ft else "")
        open(os.path.join(d, p['id'] + '.prompt.txt'), 'w').write(t)
    print("ok", d, mode)


if __name__ == "__main__":
    main()
